#!/bin/bash
# usage: tools_mutant.sh <patch file> <check id>...      (e.g. tools_mutant.sh mutants/m01.patch C19 C05)
# Applies the patch to a scratch worktree of /repo (outside /repo and /verif), runs the repository's own test suite
# there (guard off) and then the quick tier of the listed checks against that copy (VERIF_REPO), and removes the
# scratch copy with its build output.  /repo itself is never touched.
set -u
PATCH="$(readlink -f "$1")"; shift
NAME="$(basename "$PATCH" .patch)"
SCR="${MUT_SCRATCH:-/tmp/mut}/$NAME"
VERIF_DIR="$(cd "$(dirname "$0")" && pwd)"
rm -rf "$SCR"; git -C /repo worktree prune
git -C /repo worktree add -q --detach "$SCR" HEAD || exit 2
cleanup() { git -C /repo worktree remove --force "$SCR" 2>/dev/null; rm -rf "$SCR" "${VERIF_BUILD_ROOT:-$VERIF_DIR/.build}/alt-$(echo "$SCR" | md5sum | cut -c1-10)"; }
trap cleanup EXIT
if ! git -C "$SCR" apply "$PATCH"; then echo "RESULT $NAME patch-does-not-apply"; exit 2; fi
TESTS="$(cd "$SCR" && CARGO_NET_OFFLINE=true timeout 900 cargo test --workspace --no-fail-fast --offline 2>&1 | grep -E '^test result' | head -3 | awk '{print $4"/"$6}' | tr '\n' ' ')"
OUT=""
for c in "$@"; do
  VERIF_REPO="$SCR" "$VERIF_DIR/check" "$c" --tier "${MUT_TIER:-quick}" > "$SCR/.check-$c.log" 2>&1; code=$?
  sig="$(grep -A1 '^VIOLATION' "$SCR/.check-$c.log" | grep 'sig=' | head -2 | sed 's/^ *//' | cut -c1-160 | tr '\n' ';')"
  OUT="$OUT $c=exit$code[$sig]"
done
echo "RESULT $NAME tests(pass/fail)=$TESTS checks:$OUT"
