#!/usr/bin/env python3
# Stores the independently seeded changes under /verif/seeded/<id>/ (patch.diff, demonstration, meta.json) and writes
# seeded/README.md.  Input: the deliverables of the sub-agents (/tmp/seed/<id>-out) and the SEED result lines printed by
# tools_seed.sh (files given on the command line).
import json, os, re, shutil, sys
INFO = {
 'C01': ('NoDupFringe::push merges the bounds of a duplicate entry with min instead of max', 'NoDupFringe, narrow width, the same (state, depth) pushed from two cut-sets with different values and bounds, an incumbent found in between'),
 'C02': ('parallel maybe_update_best checks under one lock and writes best_lb / best_sol under a second one (solution overwritten unconditionally)', '>= 2 workers, two simultaneous improvers, interleaving LOW.check < HIGH.write < LOW.write'),
 'C03': ('parallel maybe_update_best compares with the (stale) best_lb read before the compilation, outside the lock', '>= 2 workers both holding improving solutions, the worse one committing last'),
 'C04': ('get_workload waits on the monitor in the branch where the cache rejects the last node of the fringe', 'SimpleCache, last fringe node already expanded with an equal or better value, nothing in progress: the worker parks for ever (even with ONE worker, input dependent)'),
 'C05': ('parallel abort_search combines the views of successive aborting workers with min instead of max', '>= 2 workers both cut off inside compile, the worker holding the higher bound aborting (and notifying) first'),
 'C06': ('Pooled::_relax no longer flags a recycled node (merge result equal to a kept node) as relaxed', 'pooled diagram, merge result equal to the state of a kept node plus a value tie'),
 'C07': ('Mdd::_clear no longer resets has_exact_best_path and _finalize_exact only recomputes it for relaxed compilations', 'a relaxed compilation with an exact best path followed by a restricted compilation on the SAME object'),
 'C08': ('Mdd and Pooled _relax no longer flag a recycled node as relaxed', 'merge result equal to a kept state, a value tie, a later merge, frontier cut-set'),
 'C09': ('_compute_thresholds overwrites the theta of a cut-set node with best_known - value_bot instead of taking the minimum with the propagated one', 'cut-set node with locb <= incumbent whose cache- or rub-pruned child has a tighter theta, later better arrival in the window between the two'),
 'C10': ('dominance-pruned nodes are flagged deleted, so their threshold never reaches their parents', 'dominance rule with value AND SimpleCache; a state first compiled while its children are dominated, reached again later with a higher value'),
 'C11': ('NoDupFringe::push drops node.ub = max(new, old) for a duplicate with a larger value but a smaller ub', 'a waiting sub-problem pushed again with a strictly larger value and a strictly smaller ub'),
 'C12': ('Pooled::_move_to_next_layer no longer sets node.depth when a pooled node is expanded', 'pooled diagram, a model with long arcs, a cut-set node below a long arc, a second-level compilation (the optimum stays right)'),
 'C13': ('DivBy clamps the inner width instead of the quotient', 'a divisor larger than the inner width'),
 'C14': ('ParallelSolver::set_primal overwrites the solution unconditionally (the bound stays monotone)', 'two set_primal calls, the later one not better'),
 'C15': ('Pooled::_move_to_next_layer records empty layers (the squash guard counts layers)', 'a variable irrelevant for every open node right below a sub-problem root followed by a layer wider than the width'),
 'C16': ('tsptw example: cheapest_edge[i] computed over edges LEAVING i instead of entering it', 'a travel-time matrix which is asymmetric between customers'),
 'C17': ('gap() casts the magnitudes to f32 before subtracting', 'huge, close, same-sign bounds (closer than one f32 ulp)'),
 'C18': ('SimpleCache::update_threshold = read-only fast path (get) followed by an unconditional insert', 'two threads updating the same key, both checking before either stores'),
 'C19': ('NoDupFringe::push lowers the ub of a duplicate (longer path, smaller ub) without re-heapifying', 'NoDupFringe, a duplicate with a longer path and a smaller ub, a heap descendant with a bound in between, the cut-off firing between the two out-of-order pops'),
 'C01b': ('Mdd and Pooled _relax: the statement flagging the merged node relaxed is deleted (a new node is created relaxed; a RECYCLED kept node no longer is)', 'merge result equal to the state of a kept node, exact best path through the recycled node: is_exact claimed, cut-set dropped'),
 'C03b': ('get_workload waits on the monitor in the cache-skip branch when the fringe became empty', 'SimpleCache, the last open node rejected by the cache while nothing is in progress (the same family of change as the first C04 seed, found independently)'),
 'C04b': ('notify_node_finished wakes ONE waiter instead of all when exactly one node is open', '>= 3 workers, two parked, the woken worker finishing without producing work: the other stays parked although ongoing == 0'),
 'C05b': ('NoDupFringe::push: arguments of the comparison deciding BubbleUp swapped (a raised entry keeps its heap position)', 'a waiting (state, depth) pushed again with a larger ub, a cut-off between the out-of-order pops: best_upper_bound below an open node'),
 'C06b': ('Pooled::_compile stops at the first EMPTY LAYER instead of when the pool is empty', 'long arcs: a variable irrelevant for every pooled node gives an empty layer although nodes remain -- truncated diagram, wrong bound, exactness claimed'),
 'C07b': ('Mdd::_maybe_save_lel refuses to record the root layer as last exact layer', 'restricted diagram restricted on its very first layer below the root: lel stays None, is_exact() true'),
 'C08b': ('first-layer squash guard keyed on absolute depth (curr_depth > 1) instead of the number of layers of this diagram', 'a residual sub-problem at depth >= 1 with more children than the width: the layer right below the root is merged, cut-set = root or no progress'),
 'C09b': ('SimpleCache::update_threshold maximises value and explored component-wise (the explored flag sticks)', 'stored (t, explored) then update (v > t, not explored): (v, explored) -- a cut-set node arriving with value v is dropped at pop'),
 'C11b': ('NoDupFringe index keyed by the state alone again (reverts the repair of D1 in struct, push and pop)', 'equal states at different depths open at the same time'),
 'C14b': ('parallel maybe_update_best compares with the lower bound snapshot taken before the compilation and then writes unconditionally', 'a better incumbent (e.g. set_primal value or another worker) installed between snapshot and write'),
 'C16b': ('alp example: break out of the runway loop of the domain at the first runway that is too late', '>= 2 runways whose last landed classes need different separations'),
 'C18b': ('SimpleDominanceChecker::is_dominated_or_insert: entry() replaced by get_mut() then blind insert for a new key', 'two threads recording the first two states of the same (depth, key): one front overwrites the other'),
 'C20': ('Mdd::add_terminal_node drops the best_node.is_some() guard', 'infeasible diagram with the dead end exactly on the last variable'),
 'C02b': ('Mdd::_relax: the statement flagging the merged node relaxed is deleted (a recycled kept node stays exact): the relaxed diagram claims exactness and hands out a solution which does not replay', 'merge result equal to the state of a kept node whose redirected arc becomes its best arc'),
 'C13b': ('Mdd::_relax: when the merged node is a recycled kept node the layer is no longer truncated to max_width', 'a merge result equal to a kept state in a layer wider than the width'),
 'C17b': ('gap(): the opposite-sign test (ub < 0) != (lb < 0) replaced by ub * lb < 0', 'bounds whose product overflows (panic in debug builds), or a zero bound next to a negative one'),
 'C19b': ('sequential enqueue_cutset computes min(parent ub, node ub) for the pruning test but no longer stores it in the node it pushes', 'a cut-set node whose own bound exceeds the bound of its parent, the cut-off firing between the pops'),
 'C20b': ('Pooled::_finalize_layers no longer records an EMPTY terminal layer', 'infeasible pooled diagram: add_terminal_node takes the last recorded (non terminal) layer for the terminal one'),
 'C16c': ('psp example: Psp::transition records next = decision.value also for an IDLE period', 'an optimal plan with an idle period between two productions (change-over cost charged against the wrong item)'),
 'C16d': ('max2sat example: tautological clauses (see notes.md)', 'an instance holding a clause x or not x'),
 # round 3
 'C01r3': ('Mdd::_compute_thresholds: a cut-set node whose local bound is <= the incumbent gets theta = best_known - value_bot WITHOUT the minimum with the theta propagated from its children (same site as the first C09 seed, found independently)', 'SimpleCache, LEL or frontier, narrow width, a loose rough bound, a state reached again later with a better value (1 run in 9000 on random tiny DPs)'),
 'C02r3': ('Mdd::_relax: the statement flagging the merged node relaxed is deleted (a recycled kept node stays exact) -- third independent rediscovery of this change', 'merge result equal to a kept state, relax() raising the redirected arc above the kept value, width 2 exactly'),
 'C03r3': ('parallel maybe_update_best takes the lock only when the diagram beats the best_lb the worker read BEFORE compiling, then overwrites without re-checking', '>= 2 workers compiling concurrently: W2 reads L, W1 publishes X, W2 finds Y with L < Y < X and writes Y'),
 'C04r3': ('get_workload parks on the monitor in the cache-skip branch when the fringe became empty (skips the completion test)', 'SimpleCache, the last open node rejected by the cache while nothing is in progress (third rediscovery of this family)'),
 'C05r3': ('abort path tidied in two places: notify_node_finished now runs BEFORE abort_search, and abort_search returns early when another worker has already aborted (each edit alone is sound)', 'two workers both cut off, both past notify_node_finished before either enters abort_search: the bound of the second worker\'s node is covered by nobody'),
 'C07r3': ('_finalize_exact (Mdd and Pooled): a diagram without terminal node sets has_exact_best_path whatever the compilation type', 'a restricted compilation whose truncated layer\'s kept nodes all die (dead end or rough-bound pruning against a particular incumbent) while a dropped node beats the incumbent'),
 'C08r3': ('Mdd::_relax no longer flags a recycled node relaxed (fourth rediscovery), shown through the frontier cut-set', 'union style merge equal to a kept state, frontier cut-set, a second ordinary merge deeper, a value tie'),
 'C09r3': ('Mdd::_compute_thresholds: _maybe_update_cache moved out of the if !pruned_by_cache block: a node pruned by the cache is written back with explored = !is_cutset of the CURRENT diagram', 'DD1 leaves s in its cut-set (on the fringe), DD2 re-reaches s at a value <= v strictly above its own cut-set and is pruned by the cache, s is then popped and skipped'),
 'C10r3': ('Pooled::_move_to_next_layer filters with dominance BEFORE the clone which remembers the layer: dominated nodes belong to no remembered layer and their theta never reaches their parents', 'Pooled + SimpleCache + a dominance rule using the value, a state reached again with a better value after its children were dominated (>= 5 items)'),
 'C11r3': ('NoDupFringe::pop: if heap.len() <= 1 shortcut skips the pos[new_root] = 0 repair after swap_remove', 'a pop taking the fringe from exactly two nodes to one, immediately followed by an improving re-push of the survivor: index out of bounds in bubble_up'),
 'C12r3': ('Pooled::_drain_cutset emits depth: path.len() instead of node.depth', 'Pooled, long arcs above a cut-set node, that sub-problem explored later (the optimum stays right)'),
 'C13r3': ('Times::max_width returns the decorated width unclamped when the factor is exactly 1', 'factor 1 and an inner heuristic answering 0'),
 'C15r3': ('Pooled::_initialize restarts at LayerId(path_to_root.len()) instead of the residual depth', 'a cut-set sub-problem whose path went through a long arc made by an ANCESTOR (or the initial state), narrow width, depth-free state'),
 'C16yr3': ('knapsack example: ratio key divides by weight.max(1) (division-by-zero guard)', 'an item of weight 0 and positive profit sorting behind heavier items, width 1'),
 'C17r3': ('gap() = ((ub - lb) as f32 / max magnitude).min(1.0): the opposite-sign branch dropped', 'lb < 0 < ub with |lb| + |ub| >= 2^63: overflow (panic in debug, negative gap in release)'),
 'C06r3': ('_finalize_exact (Mdd and Pooled): best_exact_node = best_exact_node.or(best_node) instead of best_node when the longest path is exact', 'a merge occurred, the longest path avoids every merged node but its terminal node also has an inexact inbound path, and ANOTHER terminal node with only exact inbound paths has a smaller value: needs several terminal states'),
 'C14r3': ('Mdd::_compute_thresholds: if tot_rub < best_known instead of <= (the threshold rule no longer agrees with the rough-bound pruning at a tie)', 'SimpleCache, an incumbent exactly equal to value + rub of some node (typically a caller supplied primal), that state reached again with a larger value'),
 'C19r3': ('sequential solver: the cache test moved from process_one_node into a pop-and-skip loop in get_workload which returns Complete directly when it empties the fringe (bypassing best_ub = best_lb)', 'SimpleCache and a search whose last popped node(s) are skipped by the cache: exact run with a stale upper bound'),
 'C20r3': ('Mdd::as_graphviz hoists let show_deleted = config.show_deleted && !self.is_exact() (the trait method, which is also true for an exact best path)', 'a relaxed diagram with a squashed layer AND an exact best path, show_deleted = true: deleted nodes vanish, clusters list undeclared ids'),
 'C16xr3': ('talentsched example: get_present counts the maybe_scenes of a merged state as scenes still to be shot', 'a merged state holding an actor who has left in some of the merged states only: three actors on three scenes (triangle), width 1 or 2'),
 'C16zr3': ('srflp example: transition_cost counts the free slots as for_each_in_domain does (n - depth): one cut too many on the arcs leaving a merged node', '>= 5 departments, a dense flow matrix, a merged node (default width or -w 1)'),
 'C03r4': ('parallel process_one_node: when the bound re-read between the restricted and the relaxed compilation makes the node irrelevant, the whole fringe is purged (copied from get_workload, but two critical sections after the pop)', '2 workers, 3 context switches: B pops M (larger ub), A pops N; while A restricts N, B raises the incumbent past ub(N) and enqueues K (which holds the optimum); A resumes and purges K'),
 'C04r4': ('the ub <= best_lb shortcut moved from process_one_node into the worker loop as a continue which skips notify_node_finished: ongoing is never given back', '2 workers, 3 context switches: the incumbent must improve between the pop of a node and the same worker\'s next critical section; the hang only shows once the fringe is empty'),
 'C09r4': ('Mdd::_compute_local_bounds guard lel < layers.len() replaced by !self.is_exact() (the trait method, also true for an exact best path): no local bounds for such diagrams, cut-set thetas saturate to MAX', 'a relaxed diagram with merges AND an exact best path whose cut-set state is reached again with a larger value from another sub-problem processed later'),
 'C10r4': ('dominance-pruned nodes are flagged deleted, so their threshold never reaches their parents (rediscovery of the first C10 seed)', 'dominance rule with value AND SimpleCache, a state reached again later with a higher value'),
 'C15r4': ('Pooled::_drain_cutset: after handing out the children of the root (root in its own cut-set) `continue` became `break`: the cut-set nodes which follow are dropped although the cache was told they are pending', 'root in the cut-set (long arcs), other cut-set nodes after it, a caching pooled solver, the optimum under a dropped node'),
 'C16pr4': ('max2sat example: precompute_estimate reads weight(t(vj), f(vi)) instead of weight(t(vi), f(vj)) for the both-false entry of the pairwise bound table', '>= 4 variables, two or more clauses on one variable pair with (x or y) strictly the lightest (in practice a NEGATIVE weight), widths 1-3'),
 'C16qr4': ('golomb example: GolombRelax::merge keeps the MAX last mark instead of the min (no relaxation)', '9 or 10 marks at width 1 only (where the width-1 restricted diagram misses the optimum)'),
 'C16sr4': ('alp example: min_separation_to[j] is the ROW minimum of the separation matrix instead of the column minimum', 'an ASYMMETRIC separation matrix (all shipped files are symmetric), 4 aircraft, binding separations, one particular width'),
 'C18r3': ('SimpleDominanceChecker::is_dominated_or_insert checks under get_mut + retain, drops the guard, then pushes through entry().or_default()', 'two threads recording comparable states a < b on one key, both past retain before either push: store {a, b}; only the THRESHOLD of later dominated verdicts is wrong'),
 'C16tr5': ('mcp example: minimum_abs_value_of_substate computes the absolute value of the minimum instead of the minimum of the absolute values (the .abs() moved out of the iterator)', 'a relaxed layer (widths 1-3) whose merged states have benefits for some unassigned vertex which are all <= 0 but not equal, the optimum through that merged node'),
 'C16ur5': ('lcs example: LcsDominance::nb_dimensions returns position.len() - 1 although get_coordinate was not shifted: the position in the last string is no longer compared', 'two or three strings, a node further ahead in the last string deleting the node on the only optimal path (7 of 360 random small instances)'),
 'C03r5': ('parallel enqueue_cutset: shortcut inside the critical section -- when the ub of the node just expanded is <= best_lb the whole fringe is cleared (the node was the top of the fringe when it was POPPED, not now)', '2 workers: A pops a low-ub node and compiles it; B raises the incumbent past that ub and enqueues children which stay on the fringe; A reaches enqueue_cutset and purges them; the optimum only under a purged node'),
 'C04r5': ('parallel worker loop: the two calls of notify_node_finished merged into one placed after the abort block, which breaks out of the loop before it: a worker cut off leaves without giving ongoing back and without notify_all', 'a cut-off which fires, >= 2 workers, a worker parked at that moment and no worker finishing a node normally afterwards'),
 'C05r5': ('parallel get_workload: the completion test (ongoing == 0 and fringe empty) runs before the abort test again (reverts the repair of D8, written independently as an alignment with the sequential solver)', '>= 2 workers, a cut-off firing while the other worker is idle or about to find the fringe empty, an incumbent which is not yet optimal'),
 'C09r5': ('Mdd::_compute_thresholds: if tot_rub < best_known instead of <= (rediscovery of C14r3)', 'SimpleCache, a rough bound exactly tying the incumbent, the state reached again with a larger value on the only optimal route'),
 'C08r5': ('Pooled::_drain_cutset: the children of the root handed out in place of the root (repair of D2) get min(value+rub, value+value_bot, best) as bound: a child merged away has no local bound (value_bot = MIN)', 'Pooled, long arcs, a root child skipping the first variable and merged two layers down, its best completion beating the incumbent'),
 'C19r5': ('NoDupFringe::push: the line node.ub = max(new, old) dropped (rediscovery of the first C11 seed): a duplicate with a longer path and a smaller ub lowers the stored ub in place, heap order silently broken', 'NoDupFringe, the same (state, depth) in two cut-sets, the cut-off firing in one particular poll window (4 of 60 random 10-item knapsacks)'),
}
HISTORY = {
 'C02': 'first run: MISSED by every check (the hooks then reported lock acquisitions from six named places only; this change adds a second lock() inside a hooked function) -> hooks rewritten as Mutex/Condvar wrappers reporting EVERY acquisition',
 'C05': 'first run: MISSED (needs two pre-emptions with two workers both cut off, and an instance with several open nodes of different bounds) -> deeper bound on representative configurations, instances ranked by number of sub-problems, knapsack instances added to the E1 list',
 'C06': 'first run of E3 used one model variant per instance (rotation) on the seed neighbourhoods and missed the one (instance, variant) pair where a recycled node matters; now every variant on TM-N0.1 / TM-N1.1',
 'C08': 'first run: caught by C01 only; C06 after the all-variants change; C08 itself (clause i: path of a cut-set node not replayable) after the KPZ family, in which a merge result equals an exact kept node in 2.5 % of the merges',
 'C10': 'first run: MISSED (solver level had knapsacks with <= 3 items) -> KP-4, KP-5, KPB-6 with dominance + cache',
 'C12': 'first run: MISSED by C12 (it only saw isolated compilations and checked depths relative to the sub-problem it was given) -> C12 now also observes solver runs and checks that each sub-problem produced by the library sits at the depth it claims',
 'C15': 'first run: MISSED -- its non-termination had the very signature of the known finding D2 -> known findings are now restricted to listed inputs; an unlisted input with a known signature is a violation',
 'C16': 'first run: MISSED (only symmetric travel-time matrices were generated) -> all asymmetric matrices on 3 nodes + deviation-bounded asymmetry on 4 nodes',
 'C17': 'first run: MISSED by the quick grid (no close pairs at large magnitudes; the thorough grid had them) -> neighbours v+-1, v+2 of every large grid value',
 'C19': 'first runs: caught by C11 (container level) only; C19 stayed silent even with the complete 6-7 item knapsack families over {1,3} -> families KPH (a hand-written 7-item knapsack with profits up to 9 and all its neighbours at Hamming distance 1; found again independently as C19r5): C19 reports it (ub 31 at poll 80, 34 at poll 81)',
 'C03b': 'caught by C04 and C09 (single-worker sweep: hang confirmed by the second, longer run); C03 reports it as par:no-result:deadlock when its budget reaches a caching unit',
 'C16b': 'first run: MISSED (the quick tier had one aircraft class only wherever it had two runways) -> scope (3 aircraft, 2 classes, 2 runways) over reduced alphabets added to the quick tier',
 'C16yr3': 'the knapsack scope had weights >= 1 only; weightless items (well formed: the unchanged example handles them) were added when the change was received, before its first run',
 'C16xr3': 'the scope stopped at 2 actors -> all 3 x 3 presence matrices whose actors play in >= 2 scenes (triangles) added to the quick tier before the first run; while confirming this seed the sub-agent noticed off-by-one answers of the UNCHANGED example: genuine defect D14',
 'C14b': 'first run: caught by C03 only; C14 itself since the explicit-state search (all interleavings) runs with a primal',
 'C05r3': 'needs two pre-emptions with both workers cut off: caught by the deeper bound and by the explicit-state search',
 'C03r4': 'first run: MISSED by C03, C02, C04 (the pre-emption bound of the quick tier was 2 for two workers, and the instances of the explicit-state search are the smallest ones) -> deeper bound (3; thorough 4) on many instances under the cheapest configuration: TM-B4#1036 is the first instance with the needed shape',
 'C16qr4': 'first run: MISSED (the scope stopped at 6 / 7 marks) -> 2..8 (9) marks at every width, 9 (10) marks at width 1',
 'C16sr4': 'MISSED by the quick tier (scope: separations over {1,2}, at most 3 aircraft); the thorough tier got a block (4 aircraft, 2 classes, 1 runway, asymmetric separations over {1,4}) which reports it; a reduced block for the quick tier did not',
 'C16pr4': 'MISSED by both tiers: the max2sat scope has at most 3 variables and positive weights; the change needs 4 variables and (in practice) a negative weight -- 4 variables x 4 clauses x signed weights is 1.9e7 runs, beyond the tiers; recorded as a limit of the scope',
 'C06b': 'first run: caught by C15 and C01, MISSED by C06 under load (the irrelevance plans came last and the cap cut them) -> plans are now run cheapest first, the irrelevance families are reached in every quick run',
 'C19r5': 'first run: caught by C11 only, C19 and C05 silent (same change as the first C19 seed) -> families KPH in the cut-off plans of C19: reported (ub 30 at poll 84, 33 at poll 85)',
 'C16zr3': 'first run: MISSED (the scope stopped at 4 departments with flows {0,1,2}: merged states need >= 4 departments and their cut values only matter for dense matrices) -> 5 departments, lengths {1,2} (non decreasing in the quick tier), flows {1,2}: reported; that run also produced the false alarm F8 (golomb@w1 "hang" on a loaded machine) -> CPU-time based watchdog; while looking for a seed in lcs the sub-agent found the UNCHANGED lcs example wrong: genuine defect D16',
}
results = {}
for f in sys.argv[1:]:
    for l in open(f):
        m = re.match(r'SEED seed(C\d+\w*?) suite\(pass/fail\)=(.*?)\s+demo-with-change\(pass/fail\)=(\S+) demo-without\(pass/fail\)=(\S+) checks:(.*)', l)
        if m: results[m.group(1)] = m.groups()[1:]
rows = []
for pid in sorted(results):
    suite, dw, dwo, checks = results[pid]
    src = '/verif/seeded/%s' % pid
    dst = '/verif/seeded/%s' % pid
    suite_ok = suite.split()[0] == '176/0'
    demo_ok = dw.split('/')[1] != '0' and dwo.split('/')[1] == '0'
    cs = re.findall(r'(C\d+)=exit(\d)\[(.*?)\](?= C\d+=|$)', checks.strip())
    caught = [c for c, e, _ in cs if e == '1']
    missed = [c for c, e, _ in cs if e == '0']
    if not (suite_ok and demo_ok): print('NOT KEPT', pid, suite, dw, dwo); continue
    os.makedirs(dst, exist_ok=True)
    for fn in ('patch.diff', 'seed_demo.rs', 'notes.md'):
        if src != dst and os.path.exists(os.path.join(src, fn)): shutil.copy(os.path.join(src, fn), os.path.join(dst, fn))
    what, needs = INFO.get(pid, ('', ''))
    meta = {'property': pid[:3], 'seed': pid, 'change': what, 'needs_to_manifest': needs,
            'confirmed': {'repository_suite_with_change (pass/fail: unit, xtask, doc)': suite.strip(), 'demonstration_with_change (pass/fail)': dw, 'demonstration_without_change (pass/fail)': dwo,
                          'how': 'tools_seed.sh: scratch worktree of /repo HEAD, patch applied with patch -p1, cargo test --workspace --offline, demonstration copied to ddo/tests/seed_demo.rs and run with and without the patch'},
            'checks_run (quick tier, VERIF_REPO=<scratch copy>)': [{'check': c, 'exit': int(e), 'first_signatures': s[:300]} for c, e, s in cs],
            'caught_by': caught, 'not_caught_by': missed, 'history': HISTORY.get(pid, 'caught at the first run')}
    json.dump(meta, open(os.path.join(dst, 'meta.json'), 'w'), indent=1)
    rows.append((pid, what, needs, caught, missed, HISTORY.get(pid, 'caught at the first run')))
with open('/verif/seeded/README.md', 'w') as f:
    f.write('# Independently seeded property-breaking changes\n\nEach change was written by a fresh sub-agent which saw only the text of one property and its own scratch worktree (nothing from /verif).\nEvery change below compiles, passes the 176 unit tests + 20 doctests, and its demonstration fails with / passes without it (confirmed by `tools_seed.sh`).\nThe last columns say which quick-tier checks report it (run against a scratch copy through `VERIF_REPO`).\n\n')
    f.write('| property | change | needs, in order to manifest | caught by (final harness) | run but silent | history |\n|---|---|---|---|---|---|\n')
    for pid, what, needs, caught, missed, hist in rows:
        f.write('| %s | %s | %s | %s | %s | %s |\n' % (pid, what, needs, ', '.join(caught) or '**none**', ', '.join(missed) or '-', hist))
print(len(rows), 'seeded changes stored')
