#![allow(dead_code)]
//! explain mode for the lcs example: the example's own model under every solver wiring (diagnostic, never a verdict).
//! usage: lcs <instance file> [width]
#[path = "/repo/ddo/examples/lcs/dominance.rs"] mod dominance;
#[path = "/repo/ddo/examples/lcs/dp.rs"] mod dp;
#[path = "/repo/ddo/examples/lcs/io_utils.rs"] mod io_utils;
#[path = "/repo/ddo/examples/lcs/model.rs"] mod model;
use ddo::*;
use dominance::LcsDominance;
use io_utils::read_instance;
use model::*;

fn main() {
    let args: Vec<String> = std::env::args().collect();
    let problem = read_instance(&args[1]).unwrap();
    let w: usize = args.get(2).and_then(|s| s.parse().ok()).unwrap_or(1);
    let relaxation = LcsRelax::new(&problem);
    let ranking = LcsRanking;
    let width = FixedWidth(w);
    let cutoff = NoCutoff;
    macro_rules! run {
        ($name:expr, $solver:ident, $dom:expr, $($threads:expr)?) => {{
            let mut fringe = NoDupFringe::new(MaxUB::new(&ranking));
            let mut solver = $solver::custom(&problem, &relaxation, &ranking, &width, $dom, &cutoff, &mut fringe $(, $threads)?);
            let Completion { is_exact, best_value } = solver.maximize();
            println!("{:<58} value {:?} exact {} explored {}", $name, best_value, is_exact, solver.explored());
        }};
    }
    let dom = SimpleDominanceChecker::new(LcsDominance, problem.nb_variables());
    run!("ParCachingSolverPooled + dominance, 1 thread (as main.rs)", ParCachingSolverPooled, &dom, 1);
    let dom = SimpleDominanceChecker::new(LcsDominance, problem.nb_variables());
    run!("SeqCachingSolverPooled + dominance", SeqCachingSolverPooled, &dom,);
    let nodom = EmptyDominanceChecker::default();
    run!("ParCachingSolverPooled, no dominance, 1 thread", ParCachingSolverPooled, &nodom, 1);
    run!("SeqCachingSolverPooled, no dominance", SeqCachingSolverPooled, &nodom,);
    run!("ParNoCachingSolverPooled, no dominance, 1 thread", ParNoCachingSolverPooled, &nodom, 1);
    run!("SeqCachingSolverLel (plain diagram), no dominance", SeqCachingSolverLel, &nodom,);
    run!("SeqNoCachingSolverLel (plain diagram), no dominance", SeqNoCachingSolverLel, &nodom,);
    run!("SeqCachingSolverFc (plain diagram), no dominance", SeqCachingSolverFc, &nodom,);
    let dom = SimpleDominanceChecker::new(LcsDominance, problem.nb_variables());
    run!("SeqCachingSolverLel (plain diagram) + dominance", SeqCachingSolverLel, &dom,);
}
