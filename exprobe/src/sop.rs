#![allow(dead_code)]
//! explain mode for the sop example: is the example's own relaxation admissible on this instance ?
#[path = "/repo/ddo/examples/sop/state.rs"] mod state;
#[path = "/repo/ddo/examples/sop/model.rs"] mod model;
#[path = "/repo/ddo/examples/sop/relax.rs"] mod relax;
#[path = "/repo/ddo/examples/sop/heuristics.rs"] mod heuristics;
#[path = "/repo/ddo/examples/sop/io_utils.rs"] mod io_utils;
use ddo::*;
use smallbitset::Set256;
type BitSet = Set256;
use std::cell::RefCell;
use std::collections::HashMap;
use state::SopState;
use model::Sop;
use relax::SopRelax;
use heuristics::{SopRanking, SopWidth};

/// best value-to-go of an EXACT state by exhaustive enumeration through the example's own Problem
fn hstar(pb: &Sop, s: &SopState, memo: &mut HashMap<SopState, Option<isize>>) -> Option<isize> {
    if let Some(v) = memo.get(s) { return *v; }
    let r = match pb.next_variable(s.depth, &mut std::iter::once(s)) {
        None => Some(0),
        Some(var) => {
            let mut decs = vec![];
            pb.for_each_in_domain(var, s, &mut |d: Decision| decs.push(d));
            let mut best = None;
            for d in decs {
                let t = pb.transition(s, d);
                let c = pb.transition_cost(s, &t, d);
                if c == isize::MIN || c.abs() > 1_000_000_000 { continue; }
                if let Some(h) = hstar(pb, &t, memo) { let v = c + h; if best.map_or(true, |b| v > b) { best = Some(v); } }
            }
            best
        }
    };
    memo.insert(*s, r);
    r
}
struct Probe<'a> { pb: &'a Sop, rx: SopRelax<'a>, truth: RefCell<HashMap<SopState, isize>>, memo: RefCell<HashMap<SopState, Option<isize>>>, reported: RefCell<usize> }
impl<'a> Probe<'a> {
    fn true_of(&self, s: &SopState) -> Option<isize> {
        if let Some(v) = self.truth.borrow().get(s) { return Some(*v); }
        if s.maybe_schedule.is_none() { if let state::Previous::Job(_) = s.previous { return hstar(self.pb, s, &mut self.memo.borrow_mut()); } }
        None
    }
}
impl Relaxation for Probe<'_> {
    type State = SopState;
    fn merge(&self, states: &mut dyn Iterator<Item = &SopState>) -> SopState {
        let input: Vec<SopState> = states.copied().collect();
        let m = self.rx.merge(&mut input.iter());
        // the merged state stands for all the members: its true value-to-go is the best of theirs
        let best = input.iter().filter_map(|s| self.true_of(s)).max();
        if let Some(b) = best {
            let e = *self.truth.borrow().get(&m).unwrap_or(&isize::MIN);
            self.truth.borrow_mut().insert(m, e.max(b));
            // the merged state, expanded on its own (no further merging), must reach at least what its members reach
            let r = hstar(self.pb, &m, &mut self.memo.borrow_mut());
            if r.map_or(true, |r| r < b) && *self.reported.borrow() < 5 {
                *self.reported.borrow_mut() += 1;
                println!("INVALID MERGE: the merged state reaches {:?} on its own but one of its members has a completion worth {}\n   merged: depth {} previous {:?} must {:?} maybe {:?}", r, b, m.depth, m.previous, m.must_schedule.iter().collect::<Vec<_>>(), m.maybe_schedule.map(|x| x.iter().collect::<Vec<_>>()));
                for s in input.iter() { println!("   member: depth {} previous {:?} must {:?} maybe {:?} true {:?}", s.depth, s.previous, s.must_schedule.iter().collect::<Vec<_>>(), s.maybe_schedule.map(|x| x.iter().collect::<Vec<_>>()), self.true_of(s)); }
            }
        }
        m
    }
    fn relax(&self, a: &SopState, b: &SopState, c: &SopState, d: Decision, cost: isize) -> isize { self.rx.relax(a, b, c, d, cost) }
    fn fast_upper_bound(&self, s: &SopState) -> isize {
        let r = self.rx.fast_upper_bound(s);
        if let Some(t) = self.true_of(s) {
            if r < t && *self.reported.borrow() < 5 {
                *self.reported.borrow_mut() += 1;
                println!("INADMISSIBLE rough bound: fast_upper_bound = {} but a represented exact state has a completion worth {}\n   state: depth {} previous {:?} must {:?} maybe {:?}", r, t, s.depth, s.previous, s.must_schedule.iter().collect::<Vec<_>>(), s.maybe_schedule.map(|m| m.iter().collect::<Vec<_>>()));
            }
        }
        r
    }
}
fn main() {
    let f = std::env::args().nth(1).expect("usage: sop <instance file> [width factor]");
    let w: usize = std::env::args().nth(2).and_then(|s| s.parse().ok()).unwrap_or(1);
    let inst = io_utils::read_instance(&f).unwrap();
    let pb = Sop::new(inst);
    let probe = Probe { pb: &pb, rx: SopRelax::new(&pb), truth: Default::default(), memo: Default::default(), reported: RefCell::new(0) };
    let opt = hstar(&pb, &pb.initial_state(), &mut probe.memo.borrow_mut());
    println!("brute force through the example's own model: optimum {:?}", opt.map(|v| -v));
    let width = SopWidth::new(pb.nb_variables(), w);
    let dominance = EmptyDominanceChecker::default();
    let cutoff = NoCutoff;
    let mut fringe = SimpleFringe::new(MaxUB::new(&SopRanking));
    let mut solver = SeqNoCachingSolverLel::custom(&pb, &probe, &SopRanking, &width, &dominance, &cutoff, &mut fringe);
    let c = solver.maximize();
    println!("sequential LEL solver, no cache, width factor {}: {:?} exact {}", w, c.best_value.map(|v| -v), c.is_exact);
}
