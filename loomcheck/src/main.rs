//! E5: loom exploration of ddo's UNMODIFIED SimpleCache and SimpleDominanceChecker compiled against an
//! instrumented dashmap stand-in (see shims/dashmap).  For every program of a small family (T threads x L
//! operations over a symbol alphabet) loom enumerates every interleaving (DPOR); for every execution the
//! recorded call/return history plus the final observations must equal the outcome of SOME sequential ordering
//! of the same operations on a reference model which respects real-time order (brute force linearizability).
use ddo::*;
use serde_json::{json, Value};
use std::collections::BTreeMap;
use std::sync::atomic::{AtomicUsize, Ordering::SeqCst};
use std::sync::{Arc, Mutex};

static CLOCK: AtomicUsize = AtomicUsize::new(0);
static EXECS: AtomicUsize = AtomicUsize::new(0);

struct OneVar;
impl Problem for OneVar {
    type State = u8;
    fn nb_variables(&self) -> usize { 1 }
    fn initial_state(&self) -> u8 { 0 }
    fn initial_value(&self) -> isize { 0 }
    fn transition(&self, s: &u8, _: Decision) -> u8 { *s }
    fn transition_cost(&self, _: &u8, _: &u8, _: Decision) -> isize { 0 }
    fn next_variable(&self, _: usize, _: &mut dyn Iterator<Item = &u8>) -> Option<Variable> { None }
    fn for_each_in_domain(&self, _: Variable, _: &u8, _: &mut dyn DecisionCallback) {}
}

#[derive(Clone, Debug)]
struct Rec<R> { thread: usize, sym: usize, call: usize, ret: usize, result: R }

/// a sequential reference model
trait RefModel: Clone {
    type Sym: Clone + std::fmt::Debug;
    type Res: Clone + PartialEq + std::fmt::Debug;
    type Obs: PartialEq + std::fmt::Debug;
    fn apply(&mut self, s: &Self::Sym) -> Self::Res;
    fn observe(&mut self) -> Self::Obs;
}

/// is there a linearization of `recs` (respecting real time) whose results and final observation match ?
fn linearizable<M: RefModel>(init: &M, alphabet: &[M::Sym], recs: &[Rec<M::Res>], obs: &M::Obs) -> bool {
    fn rec<M: RefModel>(m: &M, alphabet: &[M::Sym], recs: &[Rec<M::Res>], done: &mut Vec<bool>, left: usize, obs: &M::Obs) -> bool {
        if left == 0 { let mut mm = m.clone(); return mm.observe() == *obs; }
        for i in 0..recs.len() {
            if done[i] { continue; }
            // i may come next only if no other pending operation returned before i was called
            if (0..recs.len()).any(|j| j != i && !done[j] && recs[j].ret < recs[i].call) { continue; }
            let mut mm = m.clone();
            let r = mm.apply(&alphabet[recs[i].sym]);
            if r != recs[i].result { continue; }
            done[i] = true;
            if rec(&mm, alphabet, recs, done, left - 1, obs) { done[i] = false; return true; }
            done[i] = false;
        }
        false
    }
    rec(init, alphabet, recs, &mut vec![false; recs.len()], recs.len(), obs)
}

// ------------------------------------------------------------------------------------------------
// cache
// ------------------------------------------------------------------------------------------------
#[derive(Clone, Debug)]
enum CSym { Update { k: u8, depth: usize, value: isize, explored: bool }, Get { k: u8, depth: usize }, MustExplore { k: u8, depth: usize, value: isize }, ClearLayer(usize), Clear }
#[derive(Clone, Default)]
struct RefCache { m: BTreeMap<(u8, usize), (isize, bool)>, keys: Vec<u8>, only_depth: Option<usize> }
#[derive(Clone, PartialEq, Debug)]
enum CRes { Unit, Thr(Option<(isize, bool)>), Bool(bool) }
impl RefModel for RefCache {
    type Sym = CSym;
    type Res = CRes;
    type Obs = Vec<Option<(isize, bool)>>;
    fn apply(&mut self, s: &CSym) -> CRes {
        match s {
            CSym::Update { k, depth, value, explored } => { let e = self.m.entry((*k, *depth)).or_insert((*value, *explored)); if (*value, *explored) > *e { *e = (*value, *explored); } CRes::Unit }
            CSym::Get { k, depth } => CRes::Thr(self.m.get(&(*k, *depth)).copied()),
            CSym::MustExplore { k, depth, value } => CRes::Bool(match self.m.get(&(*k, *depth)) { None => true, Some((v, e)) => *value > *v || (*value == *v && !*e) }),
            CSym::ClearLayer(d) => { self.m.retain(|k, _| k.1 != *d); CRes::Unit }
            CSym::Clear => { self.m.clear(); CRes::Unit }
        }
    }
    fn observe(&mut self) -> Self::Obs { let mut o = vec![]; for k in self.keys.iter() { for d in 0..2 { if self.only_depth.map_or(true, |x| x == d) { o.push(self.m.get(&(*k, d)).copied()); } } } o }
}
fn cache_do(c: &SimpleCache<u8>, s: &CSym) -> CRes {
    match s {
        CSym::Update { k, depth, value, explored } => { c.update_threshold(Arc::new(*k), *depth, *value, *explored); CRes::Unit }
        CSym::Get { k, depth } => CRes::Thr(c.get_threshold(k, *depth).map(|t| (t.value, t.explored))),
        CSym::MustExplore { k, depth, value } => CRes::Bool(c.must_explore(&SubProblem { state: Arc::new(*k), value: *value, path: vec![], ub: 9, depth: *depth })),
        CSym::ClearLayer(d) => { c.clear_layer(*d); CRes::Unit }
        CSym::Clear => { c.clear(); CRes::Unit }
    }
}

// ------------------------------------------------------------------------------------------------
// dominance
// ------------------------------------------------------------------------------------------------
#[derive(Clone, Copy, Debug, PartialEq, Eq, Hash, PartialOrd, Ord)]
struct DState { c: [i8; 2] }
struct TestDom;
impl Dominance for TestDom {
    type State = DState;
    type Key = u8;
    fn get_key(&self, _: Arc<DState>) -> Option<u8> { Some(0) }
    fn nb_dimensions(&self, _: &DState) -> usize { 2 }
    fn get_coordinate(&self, s: &DState, i: usize) -> isize { s.c[i] as isize }
    fn use_value(&self) -> bool { true }
}
#[derive(Clone, Debug)]
struct DSym { s: DState, value: isize }
#[derive(Clone, Default)]
struct RefDom { front: Vec<([i8; 2], isize)>, probes: Vec<DSym> }
impl RefDom {
    fn ge(a: &([i8; 2], isize), b: &([i8; 2], isize)) -> bool { a.0[0] >= b.0[0] && a.0[1] >= b.0[1] && a.1 >= b.1 }
    fn gt(a: &([i8; 2], isize), b: &([i8; 2], isize)) -> bool { Self::ge(a, b) && a != b }
}
impl RefModel for RefDom {
    type Sym = DSym;
    type Res = (bool, Option<isize>);
    type Obs = Vec<(bool, Option<isize>)>;
    fn apply(&mut self, s: &DSym) -> (bool, Option<isize>) {
        let q = (s.s.c, s.value);
        let doms: Vec<&([i8; 2], isize)> = self.front.iter().filter(|e| Self::gt(e, &q)).collect();
        if !doms.is_empty() {
            // threshold as documented: min over the dominating entries (value - 1 when only the value differs)
            let t = doms.iter().map(|e| if e.0 == q.0 { e.1 - 1 } else { e.1 }).min().unwrap();
            return (true, Some(t));
        }
        self.front.retain(|e| !Self::ge(&q, e));
        self.front.push(q);
        (false, None)
    }
    fn observe(&mut self) -> Self::Obs { let ps = self.probes.clone(); ps.iter().map(|p| self.apply(p)).collect() }
}

// ------------------------------------------------------------------------------------------------
// programs
// ------------------------------------------------------------------------------------------------
/// all programs of `threads` threads x `len` operations over `nsym` symbols, up to thread symmetry
fn programs(threads: usize, len: usize, nsym: usize) -> Vec<Vec<Vec<usize>>> {
    let mut seqs: Vec<Vec<usize>> = vec![vec![]];
    for _ in 0..len { seqs = seqs.into_iter().flat_map(|s| (0..nsym).map(move |x| { let mut t = s.clone(); t.push(x); t })).collect(); }
    let mut out: Vec<Vec<Vec<usize>>> = vec![vec![]];
    for _ in 0..threads {
        out = out.into_iter().flat_map(|p| { let lo = p.last().cloned(); seqs.iter().filter(move |s| lo.as_ref().map_or(true, |l| *s >= l)).map(move |s| { let mut q = p.clone(); q.push(s.clone()); q }).collect::<Vec<_>>() }).collect();
    }
    out
}

struct Outcome { executions: usize, violations: Vec<String>, loom_panic: Option<String>, distinct_histories: usize }

fn run_program<M, R, F, O, C>(prog: &[Vec<usize>], alphabet: Arc<Vec<M::Sym>>, checker: C, preemption_bound: Option<usize>, make: fn() -> Arc<R>, exec: F, observe: O) -> Outcome
where M: RefModel + Send + Sync + 'static, M::Sym: Send + Sync + 'static, M::Res: Send + 'static, R: Send + Sync + 'static,
      F: Fn(&R, &M::Sym) -> M::Res + Send + Sync + Copy + 'static, O: Fn(&R) -> M::Obs + Send + Sync + Copy + 'static,
      C: Fn(&[M::Sym], &[Rec<M::Res>], &M::Obs) -> bool + Send + Sync + Copy + 'static {
    let viol: Arc<Mutex<Vec<String>>> = Arc::new(Mutex::new(vec![]));
    let hists: Arc<Mutex<std::collections::HashSet<String>>> = Arc::new(Mutex::new(Default::default()));
    let before = EXECS.load(SeqCst);
    let prog: Arc<Vec<Vec<usize>>> = Arc::new(prog.to_vec());
    let (v2, h2, p2, a2) = (viol.clone(), hists.clone(), prog.clone(), alphabet.clone());
    let mut b = loom::model::Builder::new();
    b.preemption_bound = preemption_bound;
    b.max_branches = 100_000;
    let r = std::panic::catch_unwind(std::panic::AssertUnwindSafe(move || {
        b.check(move || {
            EXECS.fetch_add(1, SeqCst);
            let real = make();
            let recs: Arc<Mutex<Vec<Rec<M::Res>>>> = Arc::new(Mutex::new(vec![]));
            let hs: Vec<_> = p2.iter().enumerate().map(|(t, ops)| {
                let (real, recs, ops, alpha) = (real.clone(), recs.clone(), ops.clone(), a2.clone());
                loom::thread::spawn(move || {
                    for sym in ops {
                        let call = CLOCK.fetch_add(1, SeqCst);
                        let result = exec(&real, &alpha[sym]);
                        let ret = CLOCK.fetch_add(1, SeqCst);
                        recs.lock().unwrap().push(Rec { thread: t, sym, call, ret, result });
                    }
                })
            }).collect();
            for h in hs { h.join().unwrap(); }
            let obs = observe(&real);
            let recs = recs.lock().unwrap().clone();
            let mut sorted = recs.clone();
            sorted.sort_by_key(|r| r.call);
            let key = format!("{:?} / {:?}", sorted.iter().map(|r| (r.thread, r.sym, format!("{:?}", r.result))).collect::<Vec<_>>(), obs);
            h2.lock().unwrap().insert(key.clone());
            if !checker(&a2, &recs, &obs) {
                let mut v = v2.lock().unwrap();
                if v.len() < 3 { v.push(format!("history {} is not the outcome of any sequential ordering of the same operations", key)); }
            }
        });
    }));
    let loom_panic = r.err().map(|e| e.downcast_ref::<String>().cloned().or_else(|| e.downcast_ref::<&str>().map(|s| s.to_string())).unwrap_or_else(|| "panic".to_string()));
    let violations = viol.lock().unwrap().clone();
    let distinct = hists.lock().unwrap().len();
    Outcome { executions: EXECS.load(SeqCst) - before, violations, loom_panic, distinct_histories: distinct }
}

/// The cache is a sharded map: every operation but the clears touches ONE key, and a clear visits the shards one
/// after the other (it is not atomic across keys, neither in dashmap nor in its stand-in, and the property does not
/// ask for it).  By locality of linearizability the right specification is therefore per key: for every
/// (key, depth) the projection of the history on it (clears included, with their whole interval) is linearizable.
fn cache_checker(alphabet: &[CSym], recs: &[Rec<CRes>], obs: &Vec<Option<(isize, bool)>>) -> bool {
    let keys = [0u8, 1, 2];
    let mut oi = 0;
    for k in keys {
        for d in 0..2usize {
            let touches = |s: &CSym| match s {
                CSym::Update { k: kk, depth, .. } | CSym::Get { k: kk, depth } | CSym::MustExplore { k: kk, depth, .. } => *kk == k && *depth == d,
                CSym::ClearLayer(dd) => *dd == d,
                CSym::Clear => true,
            };
            let proj: Vec<Rec<CRes>> = recs.iter().filter(|r| touches(&alphabet[r.sym])).cloned().collect();
            let init = RefCache { m: Default::default(), keys: vec![k], only_depth: None };
            // observation of this key only: RefCache::observe lists (k,0),(k,1)
            let mut want = vec![None, None];
            want[d] = obs[oi];
            let mut init_d = init.clone();
            init_d.only_depth = Some(d);
            if !linearizable(&init_d, alphabet, &proj, &vec![want[d]]) { return false; }
            oi += 1;
        }
    }
    true
}
fn dom_checker(alphabet: &[DSym], recs: &[Rec<(bool, Option<isize>)>], obs: &Vec<(bool, Option<isize>)>) -> bool {
    let probes: Vec<DSym> = vec![DSym { s: DState { c: [0, 0] }, value: 0 }, DSym { s: DState { c: [1, 0] }, value: 1 }, DSym { s: DState { c: [0, 1] }, value: 1 }, DSym { s: DState { c: [1, 1] }, value: 1 }, DSym { s: DState { c: [1, 0] }, value: 2 }, DSym { s: DState { c: [1, 1] }, value: 2 }];
    linearizable(&RefDom { front: vec![], probes }, alphabet, recs, obs)
}
fn make_cache() -> Arc<SimpleCache<u8>> { let mut c = SimpleCache::<u8>::default(); c.initialize(&OneVar); Arc::new(c) }
fn make_dom() -> Arc<SimpleDominanceChecker<TestDom>> { Arc::new(SimpleDominanceChecker::new(TestDom, 1)) }

fn main() {
    let args: Vec<String> = std::env::args().collect();
    let thorough = args.iter().any(|a| a == "thorough");
    // striping: `loomcheck <tier> <stripe> <nstripes>` handles the programs whose index is congruent to stripe
    let stripe: usize = args.get(2).and_then(|s| s.parse().ok()).unwrap_or(0);
    let nstripes: usize = args.get(3).and_then(|s| s.parse().ok()).unwrap_or(1);
    std::panic::set_hook(Box::new(|_| {}));
    let t0 = std::time::Instant::now();
    let budget = std::time::Duration::from_secs(if thorough { 1200 } else { 40 });
    let mut report: Vec<Value> = vec![];
    let mut violations: Vec<Value> = vec![];
    let mut total_exec = 0usize;
    let mut total_prog = 0usize;
    let mut total_hist = 0usize;
    let mut samples: Vec<Value> = vec![];
    let mut complete = true;

    // ---- cache ----
    let calpha = Arc::new(vec![
        CSym::Update { k: 0, depth: 0, value: 1, explored: true },
        CSym::Update { k: 0, depth: 0, value: 2, explored: false },
        CSym::Update { k: 1, depth: 0, value: 1, explored: false },
        CSym::Get { k: 0, depth: 0 },
        CSym::ClearLayer(0),
        CSym::Update { k: 0, depth: 0, value: 1, explored: false },
        CSym::Update { k: 0, depth: 1, value: 1, explored: false },
        CSym::Update { k: 2, depth: 0, value: 3, explored: true },
        CSym::MustExplore { k: 0, depth: 0, value: 1 },
        CSym::Clear,
    ]);
    let cobs = |c: &SimpleCache<u8>| -> Vec<Option<(isize, bool)>> { let mut o = vec![]; for k in [0u8, 1, 2] { for d in 0..2 { o.push(c.get_threshold(&k, d).map(|t| (t.value, t.explored))); } } o };
    // (threads, ops per thread, number of symbols (prefix of the alphabet), loom pre-emption bound)
    let mut shapes: Vec<(usize, usize, usize, Option<usize>)> = vec![(2, 2, 10, None), (3, 1, 6, None)];
    if thorough { shapes.push((3, 1, 10, None)); shapes.push((2, 3, 6, Some(3))); shapes.push((3, 2, 5, Some(2))); }
    for (threads, len, nsym, pb) in shapes.iter().copied() {
        let progs = programs(threads, len, nsym);
        let (mut ex, mut done, mut hist) = (0usize, 0usize, 0usize);
        for (pi, p) in progs.iter().enumerate() {
            if pi % nstripes != stripe { continue; }
            if t0.elapsed() > budget { complete = false; break; }
            let o = run_program::<RefCache, SimpleCache<u8>, _, _, _>(p, calpha.clone(), cache_checker, pb, make_cache, cache_do, cobs);
            ex += o.executions; done += 1; hist += o.distinct_histories;
            let pd: Vec<Vec<String>> = p.iter().map(|t| t.iter().map(|s| format!("{:?}", calpha[*s])).collect()).collect();
            for v in o.violations { violations.push(json!({"sig": "loom:cache:not-linearizable", "what": v, "program": pd})); }
            if let Some(lp) = o.loom_panic { violations.push(json!({"sig": if lp.contains("deadlock") { "loom:cache:deadlock" } else { "loom:cache:panic" }, "what": format!("loom aborted the exploration: {}", lp), "program": pd})); }
            if samples.len() < 2 && o.distinct_histories >= 3 { samples.push(json!({"store": "SimpleCache", "program": pd, "executions": o.executions, "distinct_histories": o.distinct_histories})); }
        }
        total_exec += ex; total_prog += done; total_hist += hist;
        report.push(json!({"store": "SimpleCache", "threads": threads, "ops_per_thread": len, "symbols": nsym, "programs": progs.len(), "programs_done": done, "executions": ex, "distinct_histories": hist, "loom_preemption_bound": pb}));
    }

    // ---- dominance ----
    let dalpha = Arc::new(vec![
        DSym { s: DState { c: [1, 0] }, value: 1 },
        DSym { s: DState { c: [0, 1] }, value: 1 },
        DSym { s: DState { c: [1, 1] }, value: 1 },
        DSym { s: DState { c: [1, 0] }, value: 2 },
        DSym { s: DState { c: [0, 0] }, value: 0 },
        DSym { s: DState { c: [1, 1] }, value: 0 },
    ]);
    let ddo_ = |d: &SimpleDominanceChecker<TestDom>, s: &DSym| -> (bool, Option<isize>) { let r = d.is_dominated_or_insert(Arc::new(s.s), 0, s.value); (r.dominated, r.threshold) };
    let dobs = |d: &SimpleDominanceChecker<TestDom>| -> Vec<(bool, Option<isize>)> {
        let probes: Vec<DSym> = vec![DSym { s: DState { c: [0, 0] }, value: 0 }, DSym { s: DState { c: [1, 0] }, value: 1 }, DSym { s: DState { c: [0, 1] }, value: 1 }, DSym { s: DState { c: [1, 1] }, value: 1 }, DSym { s: DState { c: [1, 0] }, value: 2 }, DSym { s: DState { c: [1, 1] }, value: 2 }];
        probes.iter().map(|p| { let r = d.is_dominated_or_insert(Arc::new(p.s), 0, p.value); (r.dominated, r.threshold) }).collect()
    };
    let mut shapes: Vec<(usize, usize, usize, Option<usize>)> = vec![(2, 2, 6, None), (3, 1, 6, None)];
    if thorough { shapes.push((2, 3, 4, Some(3))); shapes.push((3, 2, 4, Some(2))); }
    for (threads, len, nsym, pb) in shapes.iter().copied() {
        let progs = programs(threads, len, nsym);
        let (mut ex, mut done, mut hist) = (0usize, 0usize, 0usize);
        for (pi, p) in progs.iter().enumerate() {
            if pi % nstripes != stripe { continue; }
            if t0.elapsed() > budget { complete = false; break; }
            let o = run_program::<RefDom, SimpleDominanceChecker<TestDom>, _, _, _>(p, dalpha.clone(), dom_checker, pb, make_dom, ddo_, dobs);
            ex += o.executions; done += 1; hist += o.distinct_histories;
            let pd: Vec<Vec<String>> = p.iter().map(|t| t.iter().map(|s| format!("{:?}", dalpha[*s])).collect()).collect();
            for v in o.violations { violations.push(json!({"sig": "loom:dominance:not-linearizable", "what": v, "program": pd})); }
            if let Some(lp) = o.loom_panic { violations.push(json!({"sig": if lp.contains("deadlock") { "loom:dominance:deadlock" } else { "loom:dominance:panic" }, "what": format!("loom aborted the exploration: {}", lp), "program": pd})); }
            if samples.len() < 4 && o.distinct_histories >= 3 { samples.push(json!({"store": "SimpleDominanceChecker", "program": pd, "executions": o.executions, "distinct_histories": o.distinct_histories})); }
        }
        total_exec += ex; total_prog += done; total_hist += hist;
        report.push(json!({"store": "SimpleDominanceChecker", "threads": threads, "ops_per_thread": len, "symbols": nsym, "programs": progs.len(), "programs_done": done, "executions": ex, "distinct_histories": hist, "loom_preemption_bound": pb}));
    }
    let out = json!({"programs": total_prog, "executions": total_exec, "distinct_histories": total_hist, "families": report, "violations": violations, "samples": samples, "complete": complete, "wall_s": t0.elapsed().as_secs_f64(),
        "rule": "every program of the listed families (T threads x L operations over the first `symbols` symbols of the alphabet, up to thread symmetry) is explored by loom (DPOR over the loom RwLocks of the dashmap stand-in; unbounded unless a pre-emption bound is listed); each execution's call/return history + final observations must be linearizable w.r.t. the reference (cache: per (key, depth), which by locality equals linearizability for single-key operations, clears being per-key; dominance: the whole store against the Pareto front, final probe queries included), brute force over all orders respecting real time; loom's own deadlock detection covers lock-order problems"});
    println!("{}", out);
}
