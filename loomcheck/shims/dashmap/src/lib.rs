//! Stand-in for `dashmap` 5.x, restricted to the API subset used by ddo (`get`, `entry` + `and_modify` / `or_insert`,
//! `OccupiedEntry::get_mut`, `VacantEntry::insert`, `clear`, `Default`, `Debug`), plus the neighbouring operations a
//! change of ddo could plausibly switch to (`get_mut`, `insert`, `remove`, `contains_key`, `retain`, `len`).
//!
//! It models dashmap's locking discipline with loom primitives so that loom can explore every interleaving of
//! ddo's use of the map:
//!   * the map is split into shards (2 here, selected by the hash of the key), each protected by a RwLock;
//!   * `get` takes the READ lock of the key's shard and the returned `Ref` keeps it until dropped;
//!   * `entry` takes the WRITE lock of the key's shard and the returned entry keeps it until consumed / dropped;
//!   * `clear` visits the shards one after the other, taking the WRITE lock of one shard at a time
//!     (dashmap implements clear as `retain(|_, _| false)`, which does exactly that).
use loom::sync::{RwLock, RwLockReadGuard, RwLockWriteGuard};
use std::borrow::Borrow;
use std::collections::hash_map::RandomState;
use std::collections::HashMap;
use std::fmt;
use std::hash::{BuildHasher, Hash, Hasher};
use std::ops::Deref;

pub const NB_SHARDS: usize = 2;

pub struct DashMap<K, V, S = RandomState> {
    shards: Vec<RwLock<HashMap<K, V, S>>>,
    hasher: S,
}

impl<K: Eq + Hash, V, S: BuildHasher + Clone + Default> Default for DashMap<K, V, S> {
    fn default() -> Self {
        let hasher = S::default();
        DashMap { shards: (0..NB_SHARDS).map(|_| RwLock::new(HashMap::with_hasher(hasher.clone()))).collect(), hasher }
    }
}

impl<K: Eq + Hash, V, S: BuildHasher + Clone> DashMap<K, V, S> {
    pub fn with_hasher(hasher: S) -> Self {
        DashMap { shards: (0..NB_SHARDS).map(|_| RwLock::new(HashMap::with_hasher(hasher.clone()))).collect(), hasher }
    }
    fn shard_of<Q: Hash + ?Sized>(&self, key: &Q) -> usize {
        let mut h = self.hasher.build_hasher();
        key.hash(&mut h);
        (h.finish() as usize) % NB_SHARDS
    }
    pub fn get<Q>(&self, key: &Q) -> Option<mapref::one::Ref<'_, K, V, S>>
    where K: Borrow<Q>, Q: Hash + Eq + ?Sized {
        let guard = self.shards[self.shard_of(key)].read().unwrap();
        let ptr: Option<*const V> = guard.get(key).map(|v| v as *const V);
        ptr.map(|value| mapref::one::Ref { _guard: guard, value })
    }
    pub fn entry(&self, key: K) -> mapref::entry::Entry<'_, K, V, S> {
        let guard = self.shards[self.shard_of(&key)].write().unwrap();
        if guard.contains_key(&key) {
            mapref::entry::Entry::Occupied(mapref::entry::OccupiedEntry { guard, key })
        } else {
            mapref::entry::Entry::Vacant(mapref::entry::VacantEntry { guard, key })
        }
    }
    pub fn get_mut<Q>(&self, key: &Q) -> Option<mapref::one::RefMut<'_, K, V, S>>
    where K: Borrow<Q>, Q: Hash + Eq + ?Sized {
        let mut guard = self.shards[self.shard_of(key)].write().unwrap();
        let ptr: Option<*mut V> = guard.get_mut(key).map(|v| v as *mut V);
        ptr.map(|value| mapref::one::RefMut { guard, value, _k: std::marker::PhantomData })
    }
    pub fn contains_key<Q>(&self, key: &Q) -> bool
    where K: Borrow<Q>, Q: Hash + Eq + ?Sized {
        self.shards[self.shard_of(key)].read().unwrap().contains_key(key)
    }
    pub fn remove<Q>(&self, key: &Q) -> Option<(K, V)>
    where K: Borrow<Q>, Q: Hash + Eq + ?Sized {
        self.shards[self.shard_of(key)].write().unwrap().remove_entry(key)
    }
    pub fn retain(&self, mut f: impl FnMut(&K, &mut V) -> bool) {
        for s in self.shards.iter() {
            let mut g = s.write().unwrap();
            g.retain(|k, v| f(k, v));
        }
    }
    pub fn insert(&self, key: K, value: V) -> Option<V> {
        let mut guard = self.shards[self.shard_of(&key)].write().unwrap();
        guard.insert(key, value)
    }
    pub fn clear(&self) {
        for s in self.shards.iter() {
            let mut g = s.write().unwrap();
            g.clear();
        }
    }
    pub fn len(&self) -> usize {
        self.shards.iter().map(|s| s.read().unwrap().len()).sum()
    }
    pub fn is_empty(&self) -> bool { self.len() == 0 }
}

impl<K: Eq + Hash + fmt::Debug, V: fmt::Debug, S: BuildHasher + Clone> fmt::Debug for DashMap<K, V, S> {
    fn fmt(&self, f: &mut fmt::Formatter<'_>) -> fmt::Result {
        let mut m = f.debug_map();
        for s in self.shards.iter() {
            let g = s.read().unwrap();
            for (k, v) in g.iter() { m.entry(k, v); }
        }
        m.finish()
    }
}

pub mod mapref {
    pub mod one {
        use super::super::*;
        pub struct Ref<'a, K, V, S = RandomState> {
            pub(crate) _guard: RwLockReadGuard<'a, HashMap<K, V, S>>,
            pub(crate) value: *const V,
        }
        impl<'a, K, V, S> Ref<'a, K, V, S> {
            pub fn value(&self) -> &V { unsafe { &*self.value } }
        }
        impl<'a, K, V, S> Deref for Ref<'a, K, V, S> {
            type Target = V;
            fn deref(&self) -> &V { unsafe { &*self.value } }
        }
        pub struct RefMut<'a, K, V, S = RandomState> {
            pub(crate) guard: RwLockWriteGuard<'a, HashMap<K, V, S>>,
            pub(crate) value: *mut V,
            pub(crate) _k: std::marker::PhantomData<K>,
        }
        impl<'a, K, V, S> Deref for RefMut<'a, K, V, S> {
            type Target = V;
            fn deref(&self) -> &V { let _ = &self.guard; unsafe { &*self.value } }
        }
        impl<'a, K, V, S> std::ops::DerefMut for RefMut<'a, K, V, S> {
            fn deref_mut(&mut self) -> &mut V { unsafe { &mut *self.value } }
        }
    }
    pub mod entry {
        use super::super::*;
        use super::one::RefMut;
        pub enum Entry<'a, K, V, S = RandomState> {
            Occupied(OccupiedEntry<'a, K, V, S>),
            Vacant(VacantEntry<'a, K, V, S>),
        }
        pub struct OccupiedEntry<'a, K, V, S = RandomState> {
            pub(crate) guard: RwLockWriteGuard<'a, HashMap<K, V, S>>,
            pub(crate) key: K,
        }
        pub struct VacantEntry<'a, K, V, S = RandomState> {
            pub(crate) guard: RwLockWriteGuard<'a, HashMap<K, V, S>>,
            pub(crate) key: K,
        }
        impl<'a, K: Eq + Hash, V, S: BuildHasher> Entry<'a, K, V, S> {
            pub fn and_modify(self, f: impl FnOnce(&mut V)) -> Self {
                match self {
                    Entry::Occupied(mut e) => { f(e.get_mut()); Entry::Occupied(e) }
                    Entry::Vacant(e) => Entry::Vacant(e),
                }
            }
            pub fn or_insert(self, value: V) -> RefMut<'a, K, V, S> {
                match self {
                    Entry::Occupied(e) => e.into_ref(),
                    Entry::Vacant(e) => e.insert(value),
                }
            }
            pub fn or_insert_with(self, value: impl FnOnce() -> V) -> RefMut<'a, K, V, S> {
                match self {
                    Entry::Occupied(e) => e.into_ref(),
                    Entry::Vacant(e) => e.insert(value()),
                }
            }
            pub fn or_default(self) -> RefMut<'a, K, V, S> where V: Default { self.or_insert_with(V::default) }
        }
        impl<'a, K: Eq + Hash, V, S: BuildHasher> OccupiedEntry<'a, K, V, S> {
            pub fn get(&self) -> &V { self.guard.get(&self.key).unwrap() }
            pub fn get_mut(&mut self) -> &mut V { self.guard.get_mut(&self.key).unwrap() }
            pub fn insert(&mut self, value: V) -> V { std::mem::replace(self.get_mut(), value) }
            pub fn key(&self) -> &K { &self.key }
            pub fn remove(mut self) -> V { self.guard.remove(&self.key).unwrap() }
            pub fn into_ref(mut self) -> RefMut<'a, K, V, S> {
                let value = self.guard.get_mut(&self.key).unwrap() as *mut V;
                RefMut { guard: self.guard, value, _k: std::marker::PhantomData }
            }
        }
        impl<'a, K: Eq + Hash, V, S: BuildHasher> VacantEntry<'a, K, V, S> {
            pub fn insert(mut self, value: V) -> RefMut<'a, K, V, S> {
                let value = self.guard.entry(self.key).or_insert(value) as *mut V;
                RefMut { guard: self.guard, value, _k: std::marker::PhantomData }
            }
            pub fn key(&self) -> &K { &self.key }
        }
    }
}
