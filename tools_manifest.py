#!/usr/bin/env python3
# generates MANIFEST.json (kept under version control; re-run after editing the table below)
import json, subprocess
hooks = subprocess.check_output(['git','-C','/repo','log','--format=%h %s']).decode().splitlines()
hook_commits = [l.split()[0] for l in hooks if l.split(' ',1)[1].startswith('verif hooks')]
T = {
 'C01': ('exploration', 'E2 bnb', 'bounded-exhaustive enumeration of model instances x variants x solver configurations through the real SequentialSolver against DP oracles',
         'every instance of stated tiny model families (table DPs with powerset / bonus relaxation, knapsack, set packing with dynamic variable order; dead ends, ties, negative costs, degenerate sizes) x model variants x all 48 solver configurations is solved by the real sequential solver (fuel cut-off for termination) and compared with a DP oracle',
         'finite families only (<= 5 layers, <= 3 base states); oracles = backward DP / subset enumeration, every model self-checked'),
 'C02': ('model_checking', 'E2 bnb + E1 sched', 'solution oracle (model-side replay) on every run of the C01/C05 enumerations and on every schedule of the controlled-scheduler exploration of the real ParallelSolver',
         'sequential: every uninterrupted run of the C01 space and every cut-off index of the C05 space; parallel: all schedules up to a pre-emption bound of 2-3 workers (with and without cut-off); the reported solution is replayed through the model, value/solution/bounds coherence is checked in every execution',
         'scheduler owns all accesses to shared state (mutex acquisitions, store operations, cut-off polls); bounded instances, workers, pre-emptions'),
 'C03': ('model_checking', 'E1 sched', 'stateless model checking of the real ParallelSolver: all schedules up to a pre-emption bound under a controlled scheduler (hooked mutex/condvar events)',
         'every schedule with <= 2 (2 workers) / <= 1 (3 workers) pre-emptions [thorough: 3/2/1 for 2/3/4 workers] on instances whose search is non trivial x 3 diagrams x cache x fringe: is_exact and optimum in every execution',
         'parking_lot mutex/condvar (no spurious wake-ups) and dashmap trusted; sequential consistency suffices for this data-race-free code; bounds as stated'),
 'C04': ('model_checking', 'E1 sched', 'stateless model checking under a controlled scheduler with deadlock / lost wake-up / crash / livelock / premature-completion monitors',
         'the C03 exploration plus thread-count pairs (construction c != run r) and the cut-off firing at every poll index; deadlock is a scheduler state (no enabled worker while one is parked), not a timeout',
         'as C03; livelock = no termination within 50x the default schedule length under a fair default continuation'),
 'C05': ('model_checking', 'E2 bnb + E1 sched', 'fault enumeration of every cut-off poll index (sequential) and, for the parallel solver, crossed with all schedules up to a pre-emption bound',
         'sequential: every k in 1..K for every (instance, variant, configuration) of the scopes; parallel: every k x all schedules with <= 1 (quick) / <= 2 (thorough) pre-emptions of 2 workers (3 workers: 0 / 1): lb <= optimum <= ub, feasible solution with value lb, truthful is_exact',
         'cut-off modelled as "answers stop from poll k on"; TimeBudget wall clock not modelled'),
 'C06': ('exploration', 'E3 dd', 'bounded-exhaustive enumeration of sub-problem roots x widths x incumbents x diagram implementations x compile histories against the exact value-to-go',
         'every reachable exact sub-problem of every instance x widths 1..4 x incumbents {none, opt-1, opt, opt+1} x {LEL, frontier, pooled} relaxed compilations in isolation, on used objects and after 12 representative prior compilations',
         'EmptyCache/EmptyDominanceChecker/NoCutoff; finite families; history independence compared under total rankings only'),
 'C07': ('exploration', 'E3 dd', 'bounded-exhaustive enumeration as C06 for restricted and exact compilations against the exact value-to-go',
         'same space as C06: restricted value <= optimum with a feasible solution of exactly that value, exact claim => optimum, exact mode => optimum for every width',
         'as C06'),
 'C08': ('exploration', 'E3 dd', 'bounded-exhaustive enumeration as C06; every cut-set node replayed through the model and every completion of the root enumerated for coverage',
         'every inexact relaxed compilation of the C06 space (both cut-set types, long-arc models included): exactness, progress, bound validity of each handed-out sub-problem and coverage of every completion that beats incumbent and best exact value',
         'as C06; completions enumerated exhaustively (<= 243 per root)'),
 'C09': ('model_checking', 'E2 bnb + E1 sched', 'cache/no-cache twin enumeration on re-convergent families (sequential) and all schedules up to a pre-emption bound with cache operations as scheduling points (parallel)',
         'sequential: every instance of butterfly / depth-free / seed-neighbourhood families x variants x FULL diagram x fringe x width, caching vs non caching twins vs oracle; parallel: threshold reads and writes of different workers interleaved in every order within the pre-emption bound',
         'dashmap single-key operations linearizable (C18)'),
 'C10': ('model_checking', 'E4 ops + E2 bnb', 'explicit-state BFS to fixpoint over query sequences on the real SimpleDominanceChecker against a reference Pareto front; solver-level enumeration with admissible dominance rules',
         'all query sequences of every length over small key/coordinate/value alphabets (with and without value, clear_layer) reach a fixpoint; verdict, store content (differentially), threshold soundness (probing replayed copies) and comparator are checked on every transition; solver runs with exact/weakened/capacity rules equal the DP oracle',
         'alphabets are tiny (<= 3 coordinate values, <= 3 values, <= 2 keys/depths)'),
 'C11': ('model_checking', 'E4 ops + E2 bnb', 'explicit-state BFS to fixpoint over push/pop/clear on the real fringes (fingerprint hook for sound state matching) against reference multiset / keyed map',
         'all operation sequences of every length over a small alphabet of (state, depth, value, ub) reach a fixpoint for NoDupFringe (SimpleFringe: content bounded to 5/6 items); len, pop order, identity of all five fields, clear; solver level on depth-free models',
         'alphabet: 4-5 sub-problem identities, 2 values, 2-3 ubs'),
 'C12': ('exploration', 'E3 dd + E2 bnb', 'protocol automaton around Problem/Relaxation evaluated on every callback of every compilation of the C06 enumeration',
         'every callback of every compilation (3 diagrams x 3 types) of the C06 space is checked against the call protocol; the bonus-relaxation variant additionally turns wrong arguments into wrong bounds',
         'as C06'),
 'C13': ('exploration', 'E3 dd', 'per-layer expansion counter on every restricted/relaxed compilation of the C06 enumeration with widths 1..5; exhaustive grid of width combinators',
         'every layer of every restricted/relaxed compilation (models without long arcs) expands <= max_width states (relaxed: except root layer and first layer below); Times/DivBy nestings never yield 0 on the full grid',
         'as C06'),
 'C14': ('exploration', 'E2 bnb + E1 sched', 'bounded-exhaustive enumeration of every achievable primal value (with witness) per instance x configurations; parallel under all schedules with <= 1 pre-emption',
         'for every instance and EVERY achievable objective value p: set_primal(p, witness) then maximize() gives max(p, optimum) exactly with a feasible solution; set_primal replacement rule in isolation',
         'primal always from a genuinely feasible witness'),
 'C15': ('exploration', 'E2 bnb', 'bounded-exhaustive enumeration of depth-free models x all small irrelevance patterns, and set-packing models with skipping, pooled vs plain diagrams vs oracle',
         'all irrelevance patterns with <= 3 irrelevant (layer, state) pairs on butterfly/seed tables and all graphs on <= 4 (5) vertices: termination (fuel), optimum, feasible default-completed solution, for every diagram x cache x fringe x width',
         'known finding D2 (pooled + long arcs: non termination) is recorded in KNOWN_FINDINGS.txt'),
 'C17': ('exploration', 'E7 gap', 'exhaustive grid of (lb, ub) pairs through the real default method; solver runs with zero/negative optimum',
         'every pair lb <= ub of a grid with 0, +-1, small, huge, rounding edges, MIN/MAX goes through Solver::gap(): not NaN, >= 0, 1 iff infinite, 0 iff equal, <= 1 for same-sign bounds',
         'grid, not all of isize x isize'),
 'C18': ('model_checking', 'E4 ops + E5 loom', 'explicit-state BFS to fixpoint over cache operations (sequential); loom exhaustive interleavings of small concurrent programs on the real stores (concurrent)',
         'sequential: all operation sequences of every length on the real SimpleCache against a reference map; concurrent: see evidence (concurrent_part)',
         'concurrent part: dashmap replaced by a stand-in with the same locking discipline over loom primitives'),
 'C19': ('fault_enumeration', 'E2 bnb', 'enumeration of every consecutive pair of cut-off poll indices per (instance, variant, configuration)',
         'for every k in 1..K: LB(k) <= LB(k+1), UB(k) >= UB(k+1); the uninterrupted run is exact with both bounds at the optimum',
         'sequential solver deterministic'),
 'C20': ('exploration', 'E3 dd', 'every compiled diagram of the listed scopes x all 64 VizConfig flag combinations parsed by a DOT reader and compared with the arcs recorded from the callbacks',
         'as_graphviz never panics, emits well-formed DOT, unique node ids, exactly the requested label fields, drawn edges == recorded arcs (show_deleted) or a consistent sub-graph, terminal node iff feasible',
         'DOT subset reader; node census only for depth-embedded states'),
}
NA = {
 'C16': 'not built yet (example programs engine E6 under construction)',
}
checks = []
for pid in sorted(T):
    lvl, eng, tech, text, note = T[pid]
    checks.append({"property_id": pid, "quick_cmd": "./check %s --tier quick" % pid, "thorough_cmd": "./check %s --tier thorough" % pid, "evidence_file": "/verif/evidence/%s.json" % pid,
                   "replay_cmd_template": "./check --replay {path}", "engine": eng, "level_claimed": {"category": lvl, "text": text, "design_ref": "DESIGN.md section 3, " + pid}, "level_note": note, "technique": tech})
m = {"version": 1, "setup_cmd": "./setup.sh",
     "hooks": {"guard": "cargo feature xgillard_ddo_verif of the ddo crate", "enable": "the harness crates depend on ddo = { path = \"/repo/ddo\", features = [\"xgillard_ddo_verif\"] }",
               "baseline_off_cmd": "cd /repo && cargo test --workspace --no-fail-fast --offline", "source_commits": hook_commits, "add_only": True},
     "engines": [
        {"name": "E1 sched", "path": "mc/src/sched.rs", "serves_properties": ["C02", "C03", "C04", "C05", "C09", "C14"], "kind_free_text": "controlled scheduler + iterative-context-bounding DFS over schedules of the real ParallelSolver (stateless model checking), one pinned worker process per core"},
        {"name": "E2 bnb", "path": "mc/src/bnb.rs", "serves_properties": ["C01", "C02", "C05", "C09", "C10", "C11", "C14", "C15", "C17", "C19"], "kind_free_text": "bounded-exhaustive enumeration of instance families x variants x configurations x cut-off indices x primals through the real SequentialSolver"},
        {"name": "E3 dd", "path": "mc/src/dd.rs", "serves_properties": ["C06", "C07", "C08", "C12", "C13", "C20"], "kind_free_text": "bounded-exhaustive enumeration of diagram compilations in isolation with recorders and a DOT reader"},
        {"name": "E4 ops", "path": "mc/src/ops.rs", "serves_properties": ["C10", "C11", "C18"], "kind_free_text": "explicit-state breadth-first search to fixpoint over operation sequences of the real containers"},
        {"name": "E5 loom", "path": "loomcheck/", "serves_properties": ["C18"], "kind_free_text": "loom exhaustive interleavings of the real SimpleCache / SimpleDominanceChecker over an instrumented dashmap stand-in"},
        {"name": "E7 gap", "path": "mc/src/gap.rs", "serves_properties": ["C17", "C13"], "kind_free_text": "exhaustive grids through Solver::gap() and the width combinators"}],
     "checks": checks,
     "notes": "all checks: ./check <id> --tier quick|thorough; known findings in KNOWN_FINDINGS.txt; see DESIGN.md",
     "not_applicable": [{"property_id": k, "reason": v} for k, v in sorted(NA.items())]}
json.dump(m, open('/verif/MANIFEST.json', 'w'), indent=1)
print('written', len(checks), 'checks')
