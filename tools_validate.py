#!/usr/bin/env python3-vt
# validates MANIFEST.json and every evidence file against the schemas
import json, sys, glob, jsonschema
ms = json.load(open('/root/.vp/MANIFEST.schema.json')); es = json.load(open('/root/.vp/EVIDENCE.schema.json'))
m = json.load(open('/verif/MANIFEST.json')); jsonschema.validate(m, ms)
ids = [c['property_id'] for c in m['checks']]; na = [n['property_id'] for n in m.get('not_applicable', [])]
props = [json.loads(l)['id'] for l in open('/verif/properties.jsonl')]
print('claimed', len(ids), 'n/a', len(na), 'missing', [p for p in props if p not in ids and p not in na])
for f in sorted(glob.glob('/verif/evidence/*.json')):
    try: jsonschema.validate(json.load(open(f)), es); print('ok  ', f)
    except Exception as e: print('FAIL', f, str(e)[:300])
