#!/bin/bash
# MANIFEST.setup_cmd: builds the harness once, offline, from files on disk only.
set -e
VERIF_DIR="$(cd "$(dirname "$0")" && pwd)"
export CARGO_NET_OFFLINE=true
mkdir -p "$VERIF_DIR/.build" "$VERIF_DIR/evidence" "$VERIF_DIR/replays"
cd "$VERIF_DIR/mc" && CARGO_TARGET_DIR="$VERIF_DIR/.build/mc" cargo build --release --offline
cd "$VERIF_DIR/loomcheck" && CARGO_TARGET_DIR="$VERIF_DIR/.build/loom" cargo build --release --offline
# example binaries of C16 (dev profile, opt-level 1), same target dir and settings as the check uses
(cd /repo && CARGO_TARGET_DIR="$VERIF_DIR/.build/examples" CARGO_PROFILE_DEV_OPT_LEVEL=1 cargo build --examples -p ddo --offline)
echo "setup done"
