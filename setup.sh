#!/bin/bash
# MANIFEST.setup_cmd: builds the harness once, offline, from files on disk only.
set -e
VERIF_DIR="$(cd "$(dirname "$0")" && pwd)"
export CARGO_NET_OFFLINE=true
mkdir -p "$VERIF_DIR/.build" "$VERIF_DIR/evidence" "$VERIF_DIR/replays"
cd "$VERIF_DIR/mc" && cargo build --release --offline
cd "$VERIF_DIR/loomcheck" && cargo build --release --offline
echo "setup done"
