#!/bin/bash
# usage: tools_campaign.sh <job file> <result log>
# job file lines:   M <patch file> <check>...          (own mutant)
#                   S <seed dir> <name> <check>...      (seeded change: patch.diff + seed_demo.rs)
# ONE scratch worktree of /repo HEAD (outside /repo and /verif) and ONE alternative build directory are reused for all
# jobs (incremental builds); both are removed at the end.  /repo itself is never touched.
set -u
JOBS="$(readlink -f "$1")"; LOG="$(readlink -f "$2")"
VERIF_DIR="$(cd "$(dirname "$0")" && pwd)"
SCR="${MUT_SCRATCH:-/tmp/campaign}/cur"
rm -rf "$SCR"; git -C /repo worktree prune
git -C /repo worktree add -q --detach "$SCR" HEAD || exit 2
ALT="$VERIF_DIR/.build/alt-$(echo "$SCR" | md5sum | cut -c1-10)"
cleanup() { git -C /repo worktree remove --force "$SCR" 2>/dev/null; rm -rf "$SCR" "$ALT"; git -C /repo worktree prune; }
trap cleanup EXIT
: > "$LOG"
suite() { (cd "$SCR" && CARGO_NET_OFFLINE=true timeout 900 cargo test --workspace --no-fail-fast --offline 2>&1 | grep -E '^test result' | head -3 | awk '{print $4"/"$6}' | tr '\n' ' '); }
runchecks() {
  OUT=""
  for c in "$@"; do
    VERIF_REPO="$SCR" "$VERIF_DIR/check" "$c" --tier "${MUT_TIER:-quick}" > "$SCR/.check-$c.log" 2>&1; code=$?
    sig="$(grep -A1 '^VIOLATION' "$SCR/.check-$c.log" | grep 'sig=' | head -2 | sed 's/^ *//' | cut -c1-200 | tr '\n' ';')"
    OUT="$OUT $c=exit$code[$sig]"
  done
  echo "$OUT"
}
while read -r kind a b rest; do
  [ -z "${kind:-}" ] && continue
  (cd "$SCR" && git checkout -q -- . && git clean -qfd -e target)
  if [ "$kind" = "M" ]; then
    NAME="$(basename "$a" .patch)"
    if ! git -C "$SCR" apply "$(readlink -f "$a")"; then echo "RESULT $NAME patch-does-not-apply" >> "$LOG"; continue; fi
    T="$(suite)"
    echo "RESULT $NAME tests(pass/fail)=$T checks:$(runchecks $b $rest)" >> "$LOG"
  else
    SRC="$(readlink -f "$a")"; NAME="$b"
    if ! (cd "$SCR" && patch -s -p1 < "$SRC/patch.diff"); then echo "SEED $NAME patch-does-not-apply" >> "$LOG"; continue; fi
    find "$SCR" -name '*.orig' -delete
    T="$(suite)"
    DW="n/a"; DWO="n/a"
    if [ -f "$SRC/seed_demo.rs" ]; then
      mkdir -p "$SCR/ddo/tests"; cp "$SRC/seed_demo.rs" "$SCR/ddo/tests/seed_demo.rs"
      DW="$(cd "$SCR" && CARGO_NET_OFFLINE=true timeout 900 cargo test -p ddo --test seed_demo --offline 2>&1 | grep -E '^test result' | head -1 | awk '{print $4"/"$6}')"
      (cd "$SCR" && patch -s -R -p1 < "$SRC/patch.diff"); find "$SCR" -name '*.orig' -delete
      DWO="$(cd "$SCR" && CARGO_NET_OFFLINE=true timeout 900 cargo test -p ddo --test seed_demo --offline 2>&1 | grep -E '^test result' | head -1 | awk '{print $4"/"$6}')"
      (cd "$SCR" && patch -s -p1 < "$SRC/patch.diff"); find "$SCR" -name '*.orig' -delete
      rm -f "$SCR/ddo/tests/seed_demo.rs"
    fi
    echo "SEED $NAME suite(pass/fail)=$T demo-with-change(pass/fail)=$DW demo-without(pass/fail)=$DWO checks:$(runchecks $rest)" >> "$LOG"
  fi
done < "$JOBS"
echo ALL-DONE >> "$LOG"
