//! G4 -- every `TimeBudget` spawns a detached OS thread which sleeps for the WHOLE budget
//! (`TimeBudget::new`, ddo/src/implementation/heuristics/cutoff.rs l.306-317:
//! `std::thread::spawn(move || { sleep(budget); flag.store(true) })`).  Dropping the cut-off (the
//! search is over, usually long before the budget) does not release the thread: a program which
//! solves many instances in one process, each with a generous budget, accumulates one sleeping
//! thread (and its stack reservation) per instance until the budgets expire, and
//! `TimeBudget::new` panics ("failed to spawn thread") once the thread limit of the process is hit.
//! Deterministic.
//!
//! Place in ddo/tests/ .  Fails on the unmodified library, always (Linux only: reads /proc).
use ddo::*;
use std::time::Duration;

fn nb_threads() -> usize {
    std::fs::read_to_string("/proc/self/status").unwrap().lines().find(|l| l.starts_with("Threads:")).unwrap()
        .split_whitespace().nth(1).unwrap().parse().unwrap()
}

#[test]
fn dropping_a_time_budget_releases_its_timer_thread() {
    let before = nb_threads();
    for _ in 0..500 {
        let cutoff = TimeBudget::new(Duration::from_secs(3600));
        assert!(!cutoff.must_stop());
        drop(cutoff);
    }
    std::thread::sleep(Duration::from_millis(200));
    let after = nb_threads();
    println!("threads of the process: {} before, {} after 500 TimeBudget were created and dropped", before, after);
    assert!(after < before + 50, "{} timer threads are still alive although their TimeBudget was dropped", after - before);
}
