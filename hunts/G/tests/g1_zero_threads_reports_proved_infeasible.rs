//! G1 -- a parallel solver which is given ZERO threads (`custom(.., 0)` or `with_nb_threads(0)`)
//! does nothing at all, yet `maximize()` answers `Completion { is_exact: true, best_value: None }`,
//! which the documentation of `Solver::maximize` defines as "the problem admits no feasible
//! solution (UNSAT)".  The bounds stay [isize::MIN, isize::MAX] and the root node is left in the
//! caller's fringe.  Deterministic.
//!
//! Root cause: parallel.rs `maximize` (l.621-657): the loop `for i in 0..self.nb_threads` spawns
//! nothing, and the completion is built from `abort_proof.is_none()` only; nothing checks that
//! the search did run to its end (e.g. nb_threads.max(1), or is_exact only when the fringe is
//! empty and best_ub == best_lb).
//!
//! Place in ddo/tests/ .  Fails on the unmodified library, always.
use ddo::*;

#[derive(Debug, Clone, Copy, PartialEq, Eq, Hash)]
struct KnapsackState { depth: usize, capacity: usize }
struct Knapsack { capacity: usize, profit: Vec<usize>, weight: Vec<usize> }
impl Problem for Knapsack {
    type State = KnapsackState;
    fn nb_variables(&self) -> usize { self.profit.len() }
    fn initial_state(&self) -> KnapsackState { KnapsackState { depth: 0, capacity: self.capacity } }
    fn initial_value(&self) -> isize { 0 }
    fn transition(&self, s: &KnapsackState, d: Decision) -> KnapsackState {
        KnapsackState { depth: s.depth + 1, capacity: s.capacity - d.value as usize * self.weight[d.variable.id()] }
    }
    fn transition_cost(&self, _: &KnapsackState, _: &KnapsackState, d: Decision) -> isize { self.profit[d.variable.id()] as isize * d.value }
    fn next_variable(&self, depth: usize, _: &mut dyn Iterator<Item = &KnapsackState>) -> Option<Variable> {
        if depth < self.nb_variables() { Some(Variable(depth)) } else { None }
    }
    fn for_each_in_domain(&self, v: Variable, s: &KnapsackState, f: &mut dyn DecisionCallback) {
        if s.capacity >= self.weight[v.id()] { f.apply(Decision { variable: v, value: 1 }); }
        f.apply(Decision { variable: v, value: 0 });
    }
}
struct KPRelax;
impl Relaxation for KPRelax {
    type State = KnapsackState;
    fn merge(&self, states: &mut dyn Iterator<Item = &KnapsackState>) -> KnapsackState { states.max_by_key(|n| n.capacity).copied().unwrap() }
    fn relax(&self, _: &KnapsackState, _: &KnapsackState, _: &KnapsackState, _: Decision, cost: isize) -> isize { cost }
}
struct KPRanking;
impl StateRanking for KPRanking {
    type State = KnapsackState;
    fn compare(&self, a: &KnapsackState, b: &KnapsackState) -> std::cmp::Ordering { a.capacity.cmp(&b.capacity) }
}

#[test]
fn zero_threads_must_not_report_a_proof_of_infeasibility() {
    // the knapsack of the documentation of the library: optimum 220
    let problem = Knapsack { capacity: 50, profit: vec![60, 100, 120], weight: vec![10, 20, 30] };
    let (ranking, width, dominance, cutoff) = (KPRanking, FixedWidth(100), EmptyDominanceChecker::default(), NoCutoff);
    let mut fringe = SimpleFringe::new(MaxUB::new(&ranking));
    let mut solver = DefaultSolver::new(&problem, &KPRelax, &ranking, &width, &dominance, &cutoff, &mut fringe).with_nb_threads(0);
    let outcome = solver.maximize();
    println!("{:?} bounds [{}, {}]", outcome, solver.best_lower_bound(), solver.best_upper_bound());
    assert!(!(outcome.is_exact && outcome.best_value.is_none()),
        "a feasible problem (optimum 220) is reported as proved infeasible: {:?}, bounds [{}, {}]", outcome, solver.best_lower_bound(), solver.best_upper_bound());
}
