//! G2 -- `Mdd::_has_exact_best_path` (ddo/src/implementation/mdd/clean.rs l.643-655, same code in
//! pooled.rs l.594-606) walks the best path of a relaxed diagram RECURSIVELY, one frame per
//! layer, as long as the nodes on that path are neither exact nor merged.  The workers of the
//! parallel solver are plain `std::thread::scope` threads (2 MiB stack): in a build without
//! optimisation (dev / test profile: `cargo run`, `cargo test`) a well-formed model with about
//! 25 000 variables or more makes a worker overflow its stack and the whole process is ABORTED
//! (SIGABRT, "thread has overflowed its stack"), for any number of threads.  With the sequential
//! solver on the main thread (8 MiB) the limit is about four times higher.  In optimised builds
//! LLVM happens to turn the tail call into a loop (3 000 000 variables went through), but nothing
//! guarantees that.
//!
//! The model below is a chain of n binary variables, state = (depth, set of the possible values
//! of a counter mod 3) with a union relaxation, width 2: n = 20 000 is solved in less than a
//! second, n = 30 000 kills the process.
//!
//! Place in ddo/tests/ .  The test re-executes itself as a child process so that the abort can
//! be observed; it fails on the unmodified library in the dev/test profile, always
//! (`cargo test --release` passes).
use ddo::*;

/// state: the depth and the SET (bit mask) of the possible values of a counter modulo 3
#[derive(Clone, Debug, PartialEq, Eq, Hash)]
struct S { depth: usize, set: u8 }
struct Chain { n: usize }
impl Chain {
    /// exact model on one counter value: decision 1 resets the counter to 1 and earns 1 when it
    /// was 1 already, decision 0 increments the counter and earns nothing
    fn cost(r: u8, d: isize) -> isize { if d == 1 && r == 1 { 1 } else { 0 } }
    fn next(r: u8, d: isize) -> u8 { if d == 1 { 1 } else { (r + 1) % 3 } }
}
impl Problem for Chain {
    type State = S;
    fn nb_variables(&self) -> usize { self.n }
    fn initial_state(&self) -> S { S { depth: 0, set: 1 << 1 } }
    fn initial_value(&self) -> isize { 0 }
    fn transition(&self, s: &S, d: Decision) -> S {
        let mut set = 0;
        for r in 0..3u8 { if s.set & (1 << r) != 0 { set |= 1 << Self::next(r, d.value); } }
        S { depth: s.depth + 1, set }
    }
    fn transition_cost(&self, s: &S, _: &S, d: Decision) -> isize {
        (0..3u8).filter(|r| s.set & (1 << r) != 0).map(|r| Self::cost(r, d.value)).max().unwrap()
    }
    fn next_variable(&self, depth: usize, _: &mut dyn Iterator<Item = &S>) -> Option<Variable> { if depth < self.n { Some(Variable(depth)) } else { None } }
    fn for_each_in_domain(&self, v: Variable, _: &S, f: &mut dyn DecisionCallback) {
        f.apply(Decision { variable: v, value: 0 });
        f.apply(Decision { variable: v, value: 1 });
    }
}
/// union relaxation: the merged state stands for all the counters of the merged states; every
/// path of a member exists from the merged state with a cost which is at least as good
struct Rlx;
impl Relaxation for Rlx {
    type State = S;
    fn merge(&self, states: &mut dyn Iterator<Item = &S>) -> S { let mut m = S { depth: 0, set: 0 }; for s in states { m.depth = s.depth; m.set |= s.set; } m }
    fn relax(&self, _: &S, _: &S, _: &S, _: Decision, c: isize) -> isize { c }
}
struct Rk;
impl StateRanking for Rk { type State = S; fn compare(&self, a: &S, b: &S) -> std::cmp::Ordering { b.set.count_ones().cmp(&a.set.count_ones()).then(b.set.cmp(&a.set)) } }

fn solve(n: usize) -> Completion {
    let pb = Chain { n };
    let (w, dom) = (FixedWidth(2), EmptyDominanceChecker::default());
    let mut fringe = SimpleFringe::new(MaxUB::new(&Rk));
    let mut solver = ParNoCachingSolverLel::custom(&pb, &Rlx, &Rk, &w, &dom, &NoCutoff, &mut fringe, 2);
    solver.maximize()
}

#[test]
fn child() {
    // only does something when it is run by the test below
    if let Ok(n) = std::env::var("G2_CHILD_N") {
        let c = solve(n.parse().unwrap());
        println!("{:?}", c);
    }
}

#[test]
fn a_model_with_many_variables_does_not_kill_the_process() {
    // the counter starts at 1: taking decision 1 everywhere earns n, which is the optimum
    assert_eq!(solve(2_000).best_value, Some(2_000));
    for n in [20_000usize, 30_000, 100_000] {
        let out = std::process::Command::new(std::env::current_exe().unwrap())
            .args(["child", "--exact", "--nocapture", "--test-threads=1"]).env("G2_CHILD_N", n.to_string()).output().unwrap();
        let stderr = String::from_utf8_lossy(&out.stderr);
        println!("n = {}: {:?} {}", n, out.status, stderr.lines().filter(|l| l.contains("overflow")).collect::<Vec<_>>().join(" | "));
        assert!(out.status.success(), "n = {}: the solver process died: {:?}\n{}", n, out.status, stderr);
    }
}
