//! G3 -- after an INTERRUPTED search the parallel solver may leave sub-problems in the fringe
//! which it borrowed from its caller (schedule dependent), whereas the sequential solver always
//! hands it back empty.  A caller which re-uses the fringe for the next solver (restart with a
//! larger time budget ...) then gets `attempt to subtract with overflow` (dev profile) in
//! `open_by_layer[nn.depth] -= 1` : sequential.rs:457 (panic) or parallel.rs:603, which is executed
//! AFTER `ongoing += 1`: the panicking worker never reports its node as finished and the other
//! workers wait on the monitor for ever.
//!
//! Root cause: parallel.rs `abort_search` (l.513-535) empties the fringe, but the OTHER workers are
//! still running: a worker whose last compilation already went through its last poll of the
//! cut-off completes `process_one_node` and `enqueue_cutset` (l.486-501) pushes its cut-set
//! without looking at `abort_proof`.
//!
//! Place in ddo/tests/ .  Fails on the unmodified library:
//!   * `fringe_is_handed_back_empty` : about 2 % of the interrupted searches leave nodes behind on
//!     a 16 core machine (29, 41, 34 of ~1586 in three runs), 36 % (568 of 1595) when the model
//!     sleeps 300 us in the transitions of the last variable (variant enabled with G3_SLOW=1);
//!     the test as a whole failed in every one of my runs; every restart of a sequential solver
//!     on such a fringe panicked (dev profile).
//!   * `restart_with_a_parallel_solver_on_the_same_fringe_returns` (only runs with G3_HANG=1 since
//!     it leaves blocked threads behind): 10 of 10 restarts never returned (dev profile).
//!   With overflow checks off (release) the counter wraps instead: no panic, the stale nodes are
//!   explored as if they belonged to the new search.
use ddo::*;
use std::sync::atomic::{AtomicUsize, Ordering};
use std::time::Duration;

#[derive(Clone, Debug, PartialEq, Eq, Hash)]
struct St { depth: usize, c: [isize; 2] }
/// two-constraint 0/1 knapsack
struct Kp2 { cap: [isize; 2], profit: Vec<isize>, w: Vec<[isize; 2]>, slow: bool }
impl Problem for Kp2 {
    type State = St;
    fn nb_variables(&self) -> usize { self.profit.len() }
    fn initial_state(&self) -> St { St { depth: 0, c: self.cap } }
    fn initial_value(&self) -> isize { 0 }
    fn transition(&self, s: &St, d: Decision) -> St {
        let i = d.variable.0;
        if self.slow && i + 1 == self.profit.len() && s.c[0] % 3 == 0 { std::thread::sleep(Duration::from_micros(300)); }
        St { depth: s.depth + 1, c: [s.c[0] - d.value * self.w[i][0], s.c[1] - d.value * self.w[i][1]] }
    }
    fn transition_cost(&self, _: &St, _: &St, d: Decision) -> isize { d.value * self.profit[d.variable.0] }
    fn next_variable(&self, depth: usize, _: &mut dyn Iterator<Item = &St>) -> Option<Variable> { if depth < self.profit.len() { Some(Variable(depth)) } else { None } }
    fn for_each_in_domain(&self, var: Variable, s: &St, f: &mut dyn DecisionCallback) {
        let i = var.0;
        if self.w[i][0] <= s.c[0] && self.w[i][1] <= s.c[1] { f.apply(Decision { variable: var, value: 1 }); }
        f.apply(Decision { variable: var, value: 0 });
    }
}
struct Rlx;
impl Relaxation for Rlx {
    type State = St;
    fn merge(&self, states: &mut dyn Iterator<Item = &St>) -> St {
        let mut out: Option<St> = None;
        for s in states { out = Some(match out { None => s.clone(), Some(o) => St { depth: o.depth, c: [o.c[0].max(s.c[0]), o.c[1].max(s.c[1])] } }); }
        out.unwrap()
    }
    fn relax(&self, _: &St, _: &St, _: &St, _: Decision, cost: isize) -> isize { cost }
}
struct Rank;
impl StateRanking for Rank { type State = St; fn compare(&self, a: &St, b: &St) -> std::cmp::Ordering { (a.c[0] + a.c[1]).cmp(&(b.c[0] + b.c[1])) } }
/// answers true from the k-th poll on
struct KthPoll { k: usize, polls: AtomicUsize }
impl Cutoff for KthPoll { fn must_stop(&self) -> bool { self.polls.fetch_add(1, Ordering::SeqCst) + 1 >= self.k } }

fn rnd(x: &mut u64) -> u64 { *x ^= *x << 13; *x ^= *x >> 7; *x ^= *x << 17; *x }
fn instance(seed: u64, slow: bool) -> Kp2 {
    let mut x = seed.wrapping_mul(0x9E3779B97F4A7C15) | 1;
    let n = 9 + (rnd(&mut x) % 3) as usize;
    let w: Vec<[isize; 2]> = (0..n).map(|_| [(rnd(&mut x) % 10) as isize, (rnd(&mut x) % 10) as isize]).collect();
    let profit: Vec<isize> = (0..n).map(|_| (rnd(&mut x) % 16) as isize).collect();
    let cap = [w.iter().map(|x| x[0]).sum::<isize>() / 2, w.iter().map(|x| x[1]).sum::<isize>() / 2];
    Kp2 { cap, profit, w, slow }
}

#[test]
fn fringe_is_handed_back_empty() {
    let slow = std::env::var("G3_SLOW").is_ok();
    let (mut interrupted, mut dirty, mut follow_up_panics) = (0, 0, 0);
    for seed in 0..60u64 {
        let pb = instance(seed, slow);
        let (rank, dom, w) = (Rank, EmptyDominanceChecker::default(), FixedWidth(2));
        for k in (5..200).step_by(7) {
            let cutoff = KthPoll { k, polls: AtomicUsize::new(0) };
            let mut fringe = SimpleFringe::new(MaxUB::new(&rank));
            let exact = {
                let mut solver = ParNoCachingSolverLel::custom(&pb, &Rlx, &rank, &w, &dom, &cutoff, &mut fringe, 4);
                solver.maximize().is_exact
            }; // the solver is dropped here: the caller owns the fringe again
            if exact { break; }
            interrupted += 1;
            if fringe.len() > 0 {
                dirty += 1;
                // restart on the same fringe, without any limit (sequential solver: a panic cannot dead-lock)
                let outcome = std::panic::catch_unwind(std::panic::AssertUnwindSafe(|| {
                    let mut solver = SeqNoCachingSolverLel::custom(&pb, &Rlx, &rank, &w, &dom, &NoCutoff, &mut fringe);
                    solver.maximize()
                }));
                if outcome.is_err() { follow_up_panics += 1; }
            }
        }
    }
    println!("interrupted searches {}, fringe left non empty {}, panics of the next solver {}", interrupted, dirty, follow_up_panics);
    assert_eq!(dirty, 0, "{} of {} interrupted parallel searches left nodes in the caller's fringe ({} restarts panicked)", dirty, interrupted, follow_up_panics);
}

/// The sequential solver does hand the fringe back empty, for every k.
#[test]
fn sequential_solver_hands_the_fringe_back_empty() {
    for seed in 0..20u64 {
        let pb = instance(seed, false);
        let (rank, dom, w) = (Rank, EmptyDominanceChecker::default(), FixedWidth(2));
        for k in 1..200 {
            let cutoff = KthPoll { k, polls: AtomicUsize::new(0) };
            let mut fringe = SimpleFringe::new(MaxUB::new(&rank));
            let exact = { let mut s = SeqNoCachingSolverLel::custom(&pb, &Rlx, &rank, &w, &dom, &cutoff, &mut fringe); s.maximize().is_exact };
            assert_eq!(fringe.len(), 0);
            if exact { break; }
        }
    }
}

/// Restart with a PARALLEL solver on the fringe which the interrupted solver left non empty:
/// two workers panic (subtract with overflow) after having incremented `ongoing`, the others wait for ever.
#[test]
fn restart_with_a_parallel_solver_on_the_same_fringe_returns() {
    if std::env::var("G3_HANG").is_err() { return; }
    use std::sync::mpsc::channel;
    let (mut dirty, mut hangs, mut ok) = (0, 0, 0);
    'outer: for seed in 0..60u64 {
        for k in (5..200).step_by(7) {
            let pb: &'static Kp2 = Box::leak(Box::new(instance(seed, true)));
            let rank: &'static Rank = Box::leak(Box::new(Rank));
            let dom: &'static EmptyDominanceChecker<St> = Box::leak(Box::new(EmptyDominanceChecker::default()));
            let w: &'static FixedWidth = Box::leak(Box::new(FixedWidth(2)));
            let cutoff = KthPoll { k, polls: AtomicUsize::new(0) };
            let fringe: &'static mut SimpleFringe<MaxUB<'static, Rank>> = Box::leak(Box::new(SimpleFringe::new(MaxUB::new(rank))));
            let exact = {
                let mut solver = ParNoCachingSolverLel::custom(pb, &Rlx, rank, w, dom, &cutoff, fringe, 4);
                solver.maximize().is_exact
            };
            if exact { break; }
            if fringe.len() > 0 {
                dirty += 1;
                let (tx, rx) = channel();
                std::thread::spawn(move || {
                    let mut solver = ParNoCachingSolverLel::custom(pb, &Rlx, rank, w, dom, &NoCutoff, fringe, 4);
                    let c = solver.maximize();
                    let _ = tx.send(c.is_exact);
                });
                match rx.recv_timeout(Duration::from_secs(5)) { Ok(_) => ok += 1, Err(_) => hangs += 1 }
                if dirty >= 10 { break 'outer; }
            }
        }
    }
    println!("dirty fringes {}: restarts which never return {}, restarts which return {}", dirty, hangs, ok);
    assert_eq!(hangs, 0, "{} of {} restarts of a parallel solver never returned", hangs, dirty);
}
