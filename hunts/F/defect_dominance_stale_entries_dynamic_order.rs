//! Weighted independent set with the SAME modelling choices as the misp example
//! shipped with the library (state = set of vertices which can still be taken,
//! the variable of a layer is chosen from the content of the layer: the vertex
//! which belongs to the fewest states, union relaxation), plus the natural
//! dominance rule "a superset of candidates with a value which is not worse":
//!
//!     a is dominated by b  <=>  a.candidates ⊆ b.candidates  and  value(a) <= value(b)
//!
//! Everything the user supplies is checked by brute force below (the union is
//! an over approximation, the rough upper bound is admissible, the dominance
//! rule is admissible for EVERY pair of states).
//!
//! Nevertheless the sequential solver reports, as proven optimum
//! (is_exact = true), a value below the true optimum: for widths 1, 2, 3, with
//! the LEL, the frontier and the pooled diagrams, with and without cache.
//!
//! Mechanism (see findings.md): the dominance checker records an entry for
//! every exact node of every layer of every restricted / relaxed diagram
//! (clean.rs `_filter_with_dominance`, called from `_move_to_next_layer`
//! BEFORE the layer is restricted / merged), also for nodes which lie below
//! the cut-set or which are dropped by the restriction. Such entries are
//! promises ("somebody will develop this node") that nobody keeps: when the
//! cut-set node above is developed later, the variable ordering is different
//! (it depends on the content of the layers), the very same candidates set
//! is never derived again at that depth, and one of the children of the
//! cut-set node, which carries the optimum, is discarded because it is
//! "dominated" by the stale entry (equal value, subset of the candidates).
use ddo::*;
use std::cmp::Ordering;
use std::sync::Arc;

struct Misp {
    n: usize,
    neigh: Vec<u32>,
    weight: Vec<isize>,
}
impl Problem for Misp {
    type State = u32;
    fn nb_variables(&self) -> usize {
        self.n
    }
    fn initial_state(&self) -> u32 {
        (1u32 << self.n) - 1
    }
    fn initial_value(&self) -> isize {
        0
    }
    fn transition(&self, state: &u32, d: Decision) -> u32 {
        let v = d.variable.0;
        if d.value == 1 {
            state & !(1 << v) & !self.neigh[v]
        } else {
            state & !(1 << v)
        }
    }
    fn transition_cost(&self, _: &u32, _: &u32, d: Decision) -> isize {
        if d.value == 1 {
            self.weight[d.variable.0]
        } else {
            0
        }
    }
    /// as in examples/misp: the vertex which occurs in the fewest states of the layer;
    /// the compilation is over when no state has any candidate left
    fn next_variable(&self, _depth: usize, next_layer: &mut dyn Iterator<Item = &u32>) -> Option<Variable> {
        let mut count = vec![0usize; self.n];
        for s in next_layer {
            for (v, c) in count.iter_mut().enumerate() {
                if s & (1 << v) != 0 {
                    *c += 1;
                }
            }
        }
        count.iter().copied().enumerate().filter(|(_, c)| *c > 0).min_by_key(|(_, c)| *c).map(|(v, _)| Variable(v))
    }
    fn for_each_in_domain(&self, var: Variable, state: &u32, f: &mut dyn DecisionCallback) {
        if state & (1 << var.0) != 0 {
            f.apply(Decision { variable: var, value: 1 });
        }
        f.apply(Decision { variable: var, value: 0 });
    }
}
struct MispRelax<'a>(&'a Misp, bool);
impl Relaxation for MispRelax<'_> {
    type State = u32;
    fn merge(&self, states: &mut dyn Iterator<Item = &u32>) -> u32 {
        states.fold(0, |a, s| a | s)
    }
    fn relax(&self, _: &u32, _: &u32, _: &u32, _: Decision, cost: isize) -> isize {
        cost
    }
    fn fast_upper_bound(&self, state: &u32) -> isize {
        if !self.1 {
            return isize::MAX; // the default of the library: no rough upper bound
        }
        (0..self.0.n).filter(|v| state & (1 << v) != 0).map(|v| self.0.weight[v].max(0)).sum()
    }
}
struct MispRanking;
impl StateRanking for MispRanking {
    type State = u32;
    fn compare(&self, a: &u32, b: &u32) -> Ordering {
        a.cmp(b)
    }
}
struct Superset(usize);
impl Dominance for Superset {
    type State = u32;
    type Key = u8;
    fn get_key(&self, _: Arc<u32>) -> Option<u8> {
        Some(0)
    }
    fn nb_dimensions(&self, _: &u32) -> usize {
        self.0
    }
    fn get_coordinate(&self, state: &u32, i: usize) -> isize {
        ((state >> i) & 1) as isize
    }
    fn use_value(&self) -> bool {
        true
    }
}

/// best weight of an independent set within the candidates `s` (exhaustive)
fn best(pb: &Misp, s: u32) -> isize {
    if s == 0 {
        return 0;
    }
    let v = s.trailing_zeros() as usize;
    let skip = best(pb, s & !(1 << v));
    let take = pb.weight[v] + best(pb, s & !(1 << v) & !pb.neigh[v]);
    skip.max(take)
}
/// brute force validation of everything the user supplies
fn validate_model(pb: &Misp) {
    let rlx = MispRelax(pb, true);
    let all = 1u32 << pb.n;
    for a in 0..all {
        assert!(rlx.fast_upper_bound(&a) >= best(pb, a), "rub inadmissible");
        for b in 0..all {
            // merging is the union: it must be at least as good as its members
            assert!(best(pb, a | b) >= best(pb, a), "union is not a relaxation");
            // dominance: a ⊆ b (and value(a) <= value(b)) => nothing is lost by dropping a
            if a & b == a {
                assert!(best(pb, a) <= best(pb, b), "dominance rule inadmissible");
            }
        }
    }
}
/// independent ? weight ?
fn check_solution(pb: &Misp, sol: &[Decision]) -> isize {
    let taken: Vec<usize> = sol.iter().filter(|d| d.value == 1).map(|d| d.variable.0).collect();
    for a in taken.iter() {
        for b in taken.iter() {
            assert!(pb.neigh[*a] & (1 << b) == 0, "not an independent set");
        }
    }
    taken.iter().map(|v| pb.weight[*v]).sum()
}

fn solve<D, C>(pb: &Misp, width: usize, with_dominance: bool, with_rub: bool) -> (Completion, Option<Solution>)
where
    D: DecisionDiagram<State = u32> + Default,
    C: Cache<State = u32> + Default,
{
    let relax = MispRelax(pb, with_rub);
    let ranking = MispRanking;
    let width = FixedWidth(width);
    let cutoff = NoCutoff;
    let dominance = SimpleDominanceChecker::new(Superset(pb.n), pb.n);
    let no_dominance = EmptyDominanceChecker::default();
    let mut fringe = SimpleFringe::new(MaxUB::new(&ranking));
    let dom: &dyn DominanceChecker<State = u32> = if with_dominance { &dominance } else { &no_dominance };
    let mut solver = SequentialSolver::<u32, D, C>::custom(pb, &relax, &ranking, &width, dom, &cutoff, &mut fringe);
    let completion = solver.maximize();
    (completion, solver.best_solution())
}

fn run_all(pb: &Misp, widths: &[usize]) -> Vec<String> {
    validate_model(pb);
    let optimum = best(pb, (1u32 << pb.n) - 1);
    let mut failures = vec![];
    for &w in widths {
      for rub in [false, true] {
        for dom in [false, true] {
            let outcomes = [
                ("LEL/nocache", solve::<DefaultMDDLEL<u32>, EmptyCache<u32>>(pb, w, dom, rub)),
                ("LEL/cache", solve::<DefaultMDDLEL<u32>, SimpleCache<u32>>(pb, w, dom, rub)),
                ("FC/nocache", solve::<DefaultMDDFC<u32>, EmptyCache<u32>>(pb, w, dom, rub)),
                ("FC/cache", solve::<DefaultMDDFC<u32>, SimpleCache<u32>>(pb, w, dom, rub)),
                ("Pooled/nocache", solve::<Pooled<u32>, EmptyCache<u32>>(pb, w, dom, rub)),
                ("Pooled/cache", solve::<Pooled<u32>, SimpleCache<u32>>(pb, w, dom, rub)),
            ];
            for (name, (completion, solution)) in outcomes {
                assert!(completion.is_exact);
                let value = check_solution(pb, solution.as_ref().unwrap());
                assert_eq!(Some(value), completion.best_value, "the solution is consistent with the value");
                if completion.best_value != Some(optimum) {
                    failures.push(format!("width {} rub {} dominance {} {}: reported {:?} as optimum, true optimum {}", w, rub, dom, name, completion.best_value, optimum));
                }
            }
        }
      }
    }
    failures
}

/// 5 vertices, width 1: reports 4, optimum 5 ({0, 2})
#[test]
fn optimum_lost_with_admissible_dominance_width_1() {
    let pb = Misp {
        n: 5,
        //            43210
        neigh: vec![0b11000, 0b10100, 0b11010, 0b00101, 0b00111],
        weight: vec![3, 1, 2, 1, 3],
    };
    let failures = run_all(&pb, &[1]);
    for f in failures.iter() {
        eprintln!("{}", f);
    }
    assert!(failures.is_empty(), "{} configurations report a wrong optimum", failures.len());
}

/// 7 vertices, width 3 (and 1): reports 20, optimum 23 ({0, 6})
#[test]
fn optimum_lost_with_admissible_dominance_width_3() {
    let pb = Misp {
        n: 7,
        //            6543210
        neigh: vec![0b0011110, 0b1111001, 0b1010001, 0b1100011, 0b1000111, 0b1001010, 0b0111110],
        weight: vec![3, 3, 4, 10, 4, 15, 20],
    };
    let failures = run_all(&pb, &[1, 2, 3]);
    for f in failures.iter() {
        eprintln!("{}", f);
    }
    assert!(failures.is_empty(), "{} configurations report a wrong optimum", failures.len());
}
