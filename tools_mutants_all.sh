#!/bin/bash
# runs every mutant of mutants/mutants.json through the quick tier of its expected checks; results in mutants/results.log
cd "$(dirname "$0")"
python3 - <<'PY' > /tmp/mut_jobs.txt
import json
for m in json.load(open('mutants/mutants.json')):
    print(m['name'], ' '.join(c for c in m['expected_detecting_checks'] if not c.endswith('x')))
PY
: > mutants/results.log
while read name checks; do
  if [ -n "${ONLY:-}" ] && [[ "$name" != *"$ONLY"* ]]; then continue; fi
  ./tools_mutant.sh mutants/$name.patch $checks 2>&1 | grep '^RESULT' >> mutants/results.log
done < /tmp/mut_jobs.txt
echo ALL-DONE >> mutants/results.log
