//! Verdict protocol: violations, known findings, replay files, evidence files.
use serde_json::{json, Value};
use std::collections::BTreeMap;
use std::sync::Mutex;
use std::time::Instant;

#[derive(Clone, Debug)]
pub struct Violation {
    /// signature: names the call site / input class (matched against KNOWN_FINDINGS.txt)
    pub sig: String,
    pub what: String,
    /// everything needed to re-execute the case
    pub replay: Value,
}

#[derive(Clone, Debug)]
pub struct Known {
    pub property: String,
    pub sig: String,
    pub text: String,
    /// when present: the finding only covers these specific inputs (64-bit hashes of the case keys, see case_key);
    /// a violation with the same signature on ANY OTHER input is reported
    pub inputs: Option<std::collections::HashSet<u64>>,
    pub inputs_file: Option<String>,
}

/// The identity of the failing case of a violation: instance, model variant, configuration, diagram / target, thread
/// counts, cut-off index, primal -- everything but the schedule and the outcome.
pub fn case_key(replay: &Value) -> String {
    let mut k = String::new();
    for f in ["engine", "solver", "mode", "instance", "cfg", "k", "primal", "diagram", "target", "unit", "fire_at", "lb", "ub", "example", "args", "instance_index", "program", "ops", "case"] {
        if let Some(v) = replay.get(f) { if !v.is_null() { k.push_str(f); k.push('='); k.push_str(&v.to_string()); k.push(';'); } }
    }
    k
}
pub fn key_hash(key: &str) -> u64 { fxhash::hash64(key) }

pub fn verif_dir() -> String { std::env::var("VERIF_DIR").unwrap_or_else(|_| "/verif".to_string()) }
/// where evidence and replay files go (differs from verif_dir() only when the checks run against a copy of the repository)
pub fn out_dir() -> String { std::env::var("VERIF_OUT_DIR").unwrap_or_else(|_| verif_dir()) }

/// wall clock caps are lifted when the lists of known inputs are generated (they must come from COMPLETE enumerations)
pub fn cap_secs(s: u64) -> u64 { if std::env::var("VERIF_KNOWN_GEN").is_ok() || std::env::var("VERIF_NO_CAP").is_ok() { 36_000 } else { s } }

pub fn load_known() -> Vec<Known> {
    let path = format!("{}/KNOWN_FINDINGS.txt", verif_dir());
    let mut out = vec![];
    if let Ok(txt) = std::fs::read_to_string(path) {
        for line in txt.lines() {
            let line = line.trim();
            if !line.starts_with("known:") { continue; }
            let rest = line["known:".len()..].trim();
            let mut property = String::new();
            let mut sig = String::new();
            let mut inputs_file: Option<String> = None;
            let mut text = vec![];
            for tok in rest.split_whitespace() {
                if let Some(p) = tok.strip_prefix("property=") { if property.is_empty() { property = p.to_string(); continue; } }
                if let Some(s) = tok.strip_prefix("sig=") { if sig.is_empty() { sig = s.to_string(); continue; } }
                if let Some(s) = tok.strip_prefix("inputs=") { if inputs_file.is_none() { inputs_file = Some(s.to_string()); continue; } }
                text.push(tok);
            }
            let inputs = inputs_file.as_ref().map(|f| {
                let mut set = std::collections::HashSet::new();
                if let Ok(t) = std::fs::read_to_string(format!("{}/{}", verif_dir(), f)) { for l in t.lines() { if let Ok(h) = u64::from_str_radix(l.trim(), 16) { set.insert(h); } } }
                set
            });
            out.push(Known { property, sig, text: text.join(" "), inputs, inputs_file });
        }
    }
    out
}

pub struct Reporter {
    pub property: String,
    pub tier: String,
    pub seed: u64,
    pub start: Instant,
    pub known: Vec<Known>,
    pub violations: Mutex<Vec<Violation>>,
    pub nb_violations: std::sync::atomic::AtomicUsize,
    pub engine_errors: Mutex<Vec<String>>,
    /// per known finding with an input list: number of violations matched / keys seen (generation mode)
    pub known_matched: Mutex<BTreeMap<String, u64>>,
    pub known_gen: Mutex<BTreeMap<String, std::collections::BTreeSet<u64>>>,
}

impl Reporter {
    pub fn new(property: &str, tier: &str) -> Reporter {
        let seed = std::env::var("VERIF_SEED").ok().and_then(|s| s.parse().ok()).unwrap_or(0);
        Reporter { property: property.to_string(), tier: tier.to_string(), seed, start: Instant::now(), known: load_known(), violations: Mutex::new(vec![]), nb_violations: Default::default(), engine_errors: Mutex::new(vec![]), known_matched: Mutex::new(BTreeMap::new()), known_gen: Mutex::new(BTreeMap::new()) }
    }
    pub fn thorough(&self) -> bool { self.tier == "thorough" }
    /// records a violation (keeps at most 40 per signature in memory, all are counted)
    pub fn violation(&self, sig: String, what: String, replay: Value) {
        self.nb_violations.fetch_add(1, std::sync::atomic::Ordering::SeqCst);
        // a known finding restricted to listed inputs: matched here, per case
        if let Some(k) = self.known.iter().find(|k| k.property == self.property && k.sig == sig && k.inputs.is_some()) {
            let h = key_hash(&case_key(&replay));
            if std::env::var("VERIF_KNOWN_GEN").is_ok() { self.known_gen.lock().unwrap().entry(sig.clone()).or_default().insert(h); }
            if k.inputs.as_ref().unwrap().contains(&h) || std::env::var("VERIF_KNOWN_GEN").is_ok() {
                *self.known_matched.lock().unwrap().entry(sig).or_insert(0) += 1;
                return;
            }
            // same signature, but an input which the finding does not list: a different violation
            let mut v = self.violations.lock().unwrap();
            let sig2 = format!("{}:unlisted-input", sig);
            if v.iter().filter(|x| x.sig == sig2).count() < 3 { v.push(Violation { sig: sig2, what: format!("{} [the signature is that of a known finding, but this input is not among the inputs it lists]", what), replay }); }
            return;
        }
        let mut v = self.violations.lock().unwrap();
        if v.iter().filter(|x| x.sig == sig).count() < 3 { v.push(Violation { sig, what, replay }); }
    }
    pub fn engine_error(&self, what: String) { self.engine_errors.lock().unwrap().push(what); }
    pub fn wall(&self) -> f64 { self.start.elapsed().as_secs_f64() }

    /// Prints the verdict lines, writes replay files and the evidence file; returns the exit code.
    pub fn finish(&self, level: &str, mut coverage: Value, assumptions: Vec<String>) -> i32 {
        let dir = out_dir();
        let viol = self.violations.lock().unwrap();
        let mut new_sigs: BTreeMap<String, &Violation> = BTreeMap::new();
        let mut known_hit: BTreeMap<String, (String, usize)> = BTreeMap::new();
        for (sig, n) in self.known_matched.lock().unwrap().iter() {
            if let Some(k) = self.known.iter().find(|k| k.property == self.property && &k.sig == sig) { known_hit.insert(sig.clone(), (format!("{} [{} occurrences, all on inputs listed in {}]", k.text, n, k.inputs_file.clone().unwrap_or_default()), *n as usize)); }
        }
        if let Ok(dir) = std::env::var("VERIF_KNOWN_GEN") {
            // maintenance mode (never used by the registered commands): writes the case keys of the known signatures
            let _ = std::fs::create_dir_all(&dir);
            for (sig, set) in self.known_gen.lock().unwrap().iter() {
                let f = format!("{}/{}-{}-{}.keys", dir, self.property, sig.replace(|c: char| !c.is_alphanumeric(), "_"), self.tier);
                let _ = std::fs::write(&f, set.iter().map(|h| format!("{:016x}\n", h)).collect::<String>());
            }
        }
        for v in viol.iter() {
            if let Some(k) = self.known.iter().find(|k| k.property == self.property && k.sig == v.sig && k.inputs.is_none()) {
                let e = known_hit.entry(k.sig.clone()).or_insert((k.text.clone(), 0));
                e.1 += 1;
            } else {
                new_sigs.entry(v.sig.clone()).or_insert(v);
            }
        }
        for (sig, (text, _)) in known_hit.iter() {
            println!("KNOWN-FINDING: property={} sig={} {}", self.property, sig, text);
        }
        let _ = std::fs::create_dir_all(format!("{}/replays", dir));
        let mut reported = 0;
        for (sig, v) in new_sigs.iter() {
            let h = fxhash::hash64(&format!("{}{}", sig, v.replay));
            let path = format!("{}/replays/{}-{:016x}.json", dir, self.property, h);
            let doc = json!({"property": self.property, "sig": sig, "what": v.what, "replay": v.replay});
            let _ = std::fs::write(&path, serde_json::to_string_pretty(&doc).unwrap());
            println!("VIOLATION property={} replay={}", self.property, path);
            println!("  sig={} : {}", sig, v.what);
            reported += 1;
        }
        let errors = self.engine_errors.lock().unwrap();
        for e in errors.iter() { eprintln!("MACHINERY-ERROR property={} {}", self.property, e); }
        // evidence
        if let Value::Object(m) = &mut coverage {
            m.insert("known_findings_matched".to_string(), json!(known_hit.iter().map(|(k, v)| json!({"sig": k, "occurrences_kept": v.1})).collect::<Vec<_>>()));
            m.insert("violation_signatures".to_string(), json!(new_sigs.keys().collect::<Vec<_>>()));
        }
        let ev = json!({
            "property_id": self.property, "tier": self.tier, "seed": self.seed, "level": level,
            "coverage": coverage, "assumptions": assumptions, "wall_s": self.wall(),
            "violations": reported,
        });
        let _ = std::fs::create_dir_all(format!("{}/evidence", dir));
        let path = format!("{}/evidence/{}.json", dir, self.property);
        if let Err(e) = std::fs::write(&path, serde_json::to_string_pretty(&ev).unwrap()) { eprintln!("cannot write evidence {}: {}", path, e); return 2; }
        println!("{} tier={} wall={:.1}s violations={} known-findings={} evidence={}", self.property, self.tier, self.wall(), reported, known_hit.len(), path);
        if !errors.is_empty() { return 2; }
        if reported > 0 { 1 } else { 0 }
    }
}
