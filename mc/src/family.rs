//! Bounded-exhaustive instance families.  Every family is a finite, completely enumerable
//! set: `count()` instances, `build(idx, variant)` decodes the idx-th one deterministically.
use crate::model::*;
use serde_json::{json, Value};

#[derive(Clone, Debug, PartialEq)]
pub enum Structure { Free, Butterfly, Shift }

#[derive(Clone, Debug)]
pub enum Fam {
    /// table model, entries enumerated completely
    Tm { name: &'static str, n: usize, s: usize, nd: usize, costs: Vec<i8>, bot: bool, structure: Structure },
    /// all tables within Hamming distance <= k of a seed table
    TmNeigh { name: &'static str, seed: usize, k: usize },
    /// table model of a base family x all irrelevance patterns with at most `max_irr` irrelevant (layer, state) pairs
    TmIrr { name: &'static str, base: Box<Fam>, max_irr: usize },
    /// all graphs on m vertices x weights in {1,2,3}^m
    Sp { name: &'static str, m: usize },
    /// knapsack n items, weights/profits in {1,2,3}, capacity 0..=6 (as a table model with max merge)
    Kp { name: &'static str, n: usize },
    /// knapsack n items, weights/profits in {1,3}, capacity 0..=6: complete families for larger n
    Kpb { name: &'static str, n: usize },
    /// knapsack with profits in {0,1} (many value ties) whose second merge operator returns the FULL capacity: the merged
    /// state frequently equals an exact kept node of the layer (recycling)
    Kpz { name: &'static str, n: usize },
    /// knapsack: a hand-written instance (7 to 11 items, capacity 16 to 23, profits up to 12) and ALL instances at Hamming
    /// distance 1 from it (one weight, one profit or the capacity changed by one) -- deviation bounding applied to inputs;
    /// searches of 100 to 2000 polls whose fringe holds the same (state, depth) several times with different bounds
    Kph { name: &'static str, seed: usize },
}
/// the seeds of the KPH families: (capacity, profits, weights)
pub fn kph_seeds() -> Vec<(usize, Vec<i8>, Vec<usize>)> {
    vec![
        (17, vec![8, 5, 9, 8, 6, 7, 3], vec![6, 4, 6, 6, 6, 2, 4]),
        (23, vec![4, 9, 9, 6, 2, 6, 12, 4, 12, 6], vec![6, 6, 6, 6, 1, 6, 6, 4, 5, 1]),
        (16, vec![1, 10, 9, 5, 12, 11, 4, 11, 12, 7, 5], vec![2, 4, 3, 3, 1, 6, 6, 4, 1, 1, 2]),
    ]
}

fn binom(n: u64, k: u64) -> u64 { if k > n { 0 } else { (0..k).fold(1u64, |a, i| a * (n - i) / (i + 1)) } }

/// the seeds of the TM-N families: rich hand-written tables (merging, recycling, caching, dead ends, ties)
pub fn seeds() -> Vec<(usize, usize, usize, Vec<Vec<Vec<Option<(u8, i8)>>>>)> {
    let x = |t: u8, c: i8| Some((t, c));
    let o = None;
    vec![
        // seed 0: n=4 S=3 D=2 (the instance of the scheduler prototype)
        (4, 3, 2, vec![
            vec![vec![x(1, 2), x(2, 1)], vec![o, o], vec![o, o]],
            vec![vec![o, o], vec![x(0, 1), x(2, 3)], vec![x(1, 2), x(0, 0)]],
            vec![vec![x(0, 1), x(1, 2)], vec![x(2, 0), x(0, 3)], vec![x(1, 1), x(2, 2)]],
            vec![vec![x(0, 0), x(1, 3)], vec![x(0, 2), x(1, 1)], vec![x(2, 3), x(0, 1)]],
        ]),
        // seed 1: n=4 S=3 D=2 ties and negative costs, one dead end
        (4, 3, 2, vec![
            vec![vec![x(0, 0), x(1, 0)], vec![o, o], vec![o, o]],
            vec![vec![x(0, 1), x(2, -1)], vec![x(1, 1), x(2, 3)], vec![o, o]],
            vec![vec![x(1, 0), x(2, 1)], vec![x(0, 3), x(1, -1)], vec![x(2, 1), o]],
            vec![vec![x(0, 1), x(0, 0)], vec![x(1, -1), x(2, 3)], vec![o, x(0, 1)]],
        ]),
        // seed 2: n=5 S=3 D=2 long re-convergent chains
        (5, 3, 2, vec![
            vec![vec![x(1, 1), x(2, 0)], vec![o, o], vec![o, o]],
            vec![vec![o, o], vec![x(0, 0), x(1, 1)], vec![x(0, 3), x(2, 0)]],
            vec![vec![x(1, 1), x(2, 1)], vec![x(0, 0), x(2, 3)], vec![x(1, 0), x(0, 1)]],
            vec![vec![x(0, 3), x(1, 0)], vec![x(2, 1), x(1, 1)], vec![x(0, 0), x(2, -1)]],
            vec![vec![x(0, 0), x(1, 1)], vec![x(1, 3), x(2, 0)], vec![x(2, 1), x(0, 1)]],
        ]),
        // seed 3: n=4 S=3 D=3 wide domains
        (4, 3, 3, vec![
            vec![vec![x(0, 0), x(1, 1), x(2, 0)], vec![o, o, o], vec![o, o, o]],
            vec![vec![x(1, 1), x(2, 0), o], vec![x(0, 0), x(1, 3), x(2, 1)], vec![x(2, -1), o, x(0, 3)]],
            vec![vec![x(0, 1), o, x(2, 1)], vec![x(1, 0), x(0, 0), x(2, 3)], vec![x(0, 0), x(1, 1), o]],
            vec![vec![x(0, 0), x(1, 3), o], vec![x(2, 1), o, x(0, 1)], vec![x(1, 0), x(2, 1), x(0, -1)]],
        ]),
    ]
}
const NEIGH_T: [u8; 3] = [0, 1, 2];
const NEIGH_C: [i8; 5] = [-1, 0, 1, 2, 3];

impl Fam {
    pub fn name(&self) -> &'static str {
        match self { Fam::Tm { name, .. } | Fam::TmNeigh { name, .. } | Fam::TmIrr { name, .. } | Fam::Sp { name, .. } | Fam::Kp { name, .. } | Fam::Kpz { name, .. } | Fam::Kpb { name, .. } | Fam::Kph { name, .. } => name }
    }
    fn tm_entries(n: usize, s: usize, nd: usize) -> Vec<(usize, usize, usize)> {
        let mut e = vec![];
        for l in 0..n { for st in 0..(if l == 0 { 1 } else { s }) { for d in 0..nd { e.push((l, st, d)); } } }
        e
    }
    pub fn count(&self) -> u64 {
        match self {
            Fam::Tm { n, s, nd, costs, bot, structure, .. } => {
                let e = Self::tm_entries(*n, *s, *nd).len() as u32;
                match structure {
                    Structure::Free => ((*s * costs.len()) as u64 + *bot as u64).pow(e),
                    Structure::Butterfly => (costs.len() as u64 + *bot as u64).pow(e),
                    Structure::Shift => (costs.len() as u64 + *bot as u64).pow(e) * (*s as u64).pow(*n as u32),
                }
            }
            Fam::TmNeigh { seed, k, .. } => {
                let (n, s, nd, _) = &seeds()[*seed];
                let e = Self::tm_entries(*n, *s, *nd).len() as u64;
                let alts = (NEIGH_T.len() * NEIGH_C.len()) as u64; // alternatives per entry: 15 values + bottom - own value = 15
                (0..=*k as u64).map(|j| binom(e, j) * alts.pow(j as u32)).sum()
            }
            Fam::TmIrr { base, max_irr, .. } => {
                let (n, s) = base.dims();
                let p = (n * s) as u64;
                base.count() * (0..=*max_irr as u64).map(|j| binom(p, j)).sum::<u64>()
            }
            Fam::Sp { m, .. } => (1u64 << (m * (m.max(&1) - 1) / 2)) * 3u64.pow(*m as u32),
            Fam::Kp { n, .. } => 9u64.pow(*n as u32) * 7,
            Fam::Kpz { n, .. } => 6u64.pow(*n as u32) * 7,
            Fam::Kpb { n, .. } => 4u64.pow(*n as u32) * 7,
            Fam::Kph { seed, .. } => 1 + 4 * kph_seeds()[*seed].1.len() as u64 + 2,
        }
    }
    fn dims(&self) -> (usize, usize) {
        match self {
            Fam::Tm { n, s, .. } => (*n, *s),
            Fam::TmNeigh { seed, .. } => { let (n, s, _, _) = &seeds()[*seed]; (*n, *s) }
            _ => panic!("no dims"),
        }
    }
    fn build_tm(&self, idx: u64, var: Variant) -> Tm {
        match self {
            Fam::Tm { name, n, s, nd, costs, bot, structure } => {
                let entries = Self::tm_entries(*n, *s, *nd);
                let mut tr = vec![vec![vec![None; *nd]; *s]; *n];
                let mut r = idx;
                let init = [0isize, -2, 3][(idx % 3) as usize];
                let mut shifts = vec![0usize; *n];
                if *structure == Structure::Shift { for l in 0..*n { shifts[l] = (r % *s as u64) as usize; r /= *s as u64; } }
                for (l, st, d) in entries {
                    let opts = match structure { Structure::Free => (*s * costs.len()) as u64, _ => costs.len() as u64 } + *bot as u64;
                    let o = (r % opts) as usize;
                    r /= opts;
                    let o = if *bot { if o == 0 { continue; } else { o - 1 } } else { o };
                    let (t, c) = match structure {
                        Structure::Free => (o / costs.len(), costs[o % costs.len()]),
                        Structure::Butterfly => (d % *s, costs[o]),
                        Structure::Shift => ((st + d + shifts[l]) % *s, costs[o]),
                    };
                    tr[l][st][d] = Some((t as u8, c));
                }
                let tm = Tm::new(*n, *s, *nd, tr, init, var, name);
                if var.bonus { let b = Self::bonus_table(*n, *s, idx); tm.with_bonus(b) } else { tm }
            }
            Fam::TmNeigh { name, seed, k } => {
                let (n, s, nd, mut tr) = seeds()[*seed].clone();
                let entries = Self::tm_entries(n, s, nd);
                let e = entries.len() as u64;
                let alts = (NEIGH_T.len() * NEIGH_C.len()) as u64;
                // which distance class ?
                let mut r = idx;
                let mut dist = 0u64;
                for j in 0..=*k as u64 {
                    let c = binom(e, j) * alts.pow(j as u32);
                    if r < c { dist = j; break; }
                    r -= c;
                }
                // r-th element of the class: (subset index, alternative digits)
                let nsub = binom(e, dist);
                let sub = r % nsub.max(1);
                let mut digits = r / nsub.max(1);
                // decode the sub-th `dist`-subset of 0..e (combinatorial number system, lexicographic)
                let mut chosen = vec![];
                let mut rem = sub;
                let mut start = 0u64;
                for j in 0..dist {
                    let mut x = start;
                    loop {
                        let c = binom(e - x - 1, dist - j - 1);
                        if rem < c { break; }
                        rem -= c;
                        x += 1;
                    }
                    chosen.push(x as usize);
                    start = x + 1;
                }
                for pos in chosen {
                    let (l, st, d) = entries[pos];
                    let a = (digits % alts) as usize;
                    digits /= alts;
                    // the list of all 16 possible values (bottom + 15), minus the current one, indexed by a
                    let mut all: Vec<Option<(u8, i8)>> = vec![None];
                    for t in NEIGH_T.iter().filter(|t| (**t as usize) < s) { for c in NEIGH_C { all.push(Some((*t, c))); } }
                    let cur = tr[l][st][d];
                    let cands: Vec<_> = all.into_iter().filter(|v| *v != cur).collect();
                    tr[l][st][d] = cands[a % cands.len()];
                }
                let init = [0isize, -2, 3][(idx % 3) as usize];
                let tm = Tm::new(n, s, nd, tr, init, var, name);
                if var.bonus { let b = Self::bonus_table(n, s, idx); tm.with_bonus(b) } else { tm }
            }
            Fam::TmIrr { base, max_irr, .. } => {
                let (n, s) = base.dims();
                let p = (n * s) as u64;
                let npat: u64 = (0..=*max_irr as u64).map(|j| binom(p, j)).sum();
                let mut var = var;
                var.flat = true;
                var.bonus = false;
                var.dom = Dom::Off;
                let tm = base.build_tm(idx / npat, var);
                let mut r = idx % npat;
                let mut size = 0u64;
                for j in 0..=*max_irr as u64 { let c = binom(p, j); if r < c { size = j; break; } r -= c; }
                let mut irr = vec![vec![false; s]; n];
                let mut rem = r;
                let mut start = 0u64;
                for j in 0..size {
                    let mut x = start;
                    loop { let c = binom(p - x - 1, size - j - 1); if rem < c { break; } rem -= c; x += 1; }
                    irr[(x as usize) / s][(x as usize) % s] = true;
                    start = x + 1;
                }
                tm.with_irrelevance(irr)
            }
            Fam::Kp { name, n } => {
                let mut r = idx;
                let cap = (r % 7) as usize;
                r /= 7;
                let s = cap + 1;
                let mut tr = vec![vec![vec![None; 2]; s]; *n];
                for l in 0..*n {
                    let w = (r % 3) as usize + 1; r /= 3;
                    let p = (r % 3) as i8 + 1; r /= 3;
                    for c in 0..s {
                        tr[l][c][0] = Some((c as u8, 0));
                        if w <= c { tr[l][c][1] = Some(((c - w) as u8, p)); }
                    }
                }
                let mut var = var;
                if var.dom != Dom::Off { var.dom = Dom::Coord; }
                // the `bonus` flag of the variant selects the merge operator for knapsack: larger capacity, or one MORE than
                // the largest merged capacity (still a valid relaxation; its result can coincide with a kept node => recycling)
                let mode = if var.bonus { MergeMode::MaxIdxUp } else { MergeMode::MaxIdx };
                let mut var = var;
                var.bonus = false;
                Tm::new(*n, s, 2, tr, 0, var, name).with_mode(mode).with_root(cap)
            }
            Fam::Kpb { name, n } => {
                let mut r = idx;
                let cap = (r % 7) as usize;
                r /= 7;
                let s = cap + 1;
                let mut tr = vec![vec![vec![None; 2]; s]; *n];
                for l in 0..*n {
                    let w = [1usize, 3][(r % 2) as usize]; r /= 2;
                    let p = [1i8, 3][(r % 2) as usize]; r /= 2;
                    for c in 0..s {
                        tr[l][c][0] = Some((c as u8, 0));
                        if w <= c { tr[l][c][1] = Some(((c - w) as u8, p)); }
                    }
                }
                let mut var = var;
                if var.dom != Dom::Off { var.dom = Dom::Coord; }
                let mode = if var.bonus { MergeMode::MaxIdxUp } else { MergeMode::MaxIdx };
                var.bonus = false;
                Tm::new(*n, s, 2, tr, 0, var, name).with_mode(mode).with_root(cap)
            }
            Fam::Kpz { name, n } => {
                let mut r = idx;
                let cap = (r % 7) as usize;
                r /= 7;
                let s = cap + 1;
                let mut tr = vec![vec![vec![None; 2]; s]; *n];
                for l in 0..*n {
                    let w = (r % 3) as usize + 1; r /= 3;
                    let p = (r % 2) as i8; r /= 2;
                    for c in 0..s {
                        tr[l][c][0] = Some((c as u8, 0));
                        if w <= c { tr[l][c][1] = Some(((c - w) as u8, p)); }
                    }
                }
                let mut var = var;
                if var.dom != Dom::Off { var.dom = Dom::Coord; }
                let mode = if var.bonus { MergeMode::MaxTop } else { MergeMode::MaxIdx };
                var.bonus = false;
                Tm::new(*n, s, 2, tr, 0, var, name).with_mode(mode).with_root(cap)
            }
            Fam::Kph { name, seed } => {
                let (mut cap, mut profit, mut weight) = kph_seeds()[*seed].clone();
                let n = profit.len();
                // idx 0: the seed; then per item: weight-1, weight+1, profit-1, profit+1; then capacity-1, capacity+1
                if idx >= 1 {
                    let j = (idx - 1) as usize;
                    if j < 4 * n {
                        let i = j / 4;
                        match j % 4 { 0 => weight[i] = weight[i].saturating_sub(1).max(1), 1 => weight[i] += 1, 2 => profit[i] = (profit[i] - 1).max(0), _ => profit[i] += 1 }
                    } else if j == 4 * n { cap -= 1; } else { cap += 1; }
                }
                let s = cap + 1;
                assert!(s <= 32);
                let mut tr = vec![vec![vec![None; 2]; s]; n];
                for l in 0..n { for c in 0..s { tr[l][c][0] = Some((c as u8, 0)); if weight[l] <= c { tr[l][c][1] = Some(((c - weight[l]) as u8, profit[l])); } } }
                let mut var = var;
                if var.dom != Dom::Off { var.dom = Dom::Coord; }
                let mode = if var.bonus { MergeMode::MaxIdxUp } else { MergeMode::MaxIdx };
                var.bonus = false;
                Tm::new(n, s, 2, tr, 0, var, name).with_mode(mode).with_root(cap)
            }
            Fam::Sp { .. } => panic!("not a table model"),
        }
    }
    fn bonus_table(n: usize, s: usize, idx: u64) -> Vec<Vec<i8>> {
        // deterministic, instance dependent bonus table with values in {0,1,2}
        let mut z = idx.wrapping_mul(0x9E3779B97F4A7C15) ^ 0xD1B54A32D192ED03;
        let mut b = vec![vec![0i8; s]; n + 1];
        for l in 0..n { for st in 0..s { z ^= z << 13; z ^= z >> 7; z ^= z << 17; b[l][st] = (z % 3) as i8; } }
        b
    }
    /// normalises the variant to what the family supports
    pub fn build(&self, idx: u64, var: Variant) -> Box<dyn Model> {
        match self {
            Fam::Sp { name, m } => {
                let ne = m * (m.max(&1) - 1) / 2;
                let g = idx % (1u64 << ne);
                let mut r = idx >> ne;
                let mut w = vec![];
                for _ in 0..*m { w.push((r % 3) as isize + 1); r /= 3; }
                let mut adj = vec![0u32; *m];
                let mut bit = 0;
                for u in 0..*m { for v in u + 1..*m { if g & (1 << bit) != 0 { adj[u] |= 1 << v; adj[v] |= 1 << u; } bit += 1; } }
                { let mut sp = Sp::new(*m, w, adj, var.la, var.rub != Rub::None, var.rank, name); sp.dom = var.dom != crate::model::Dom::Off; Box::new(sp) }
            }
            _ => {
                let mut var = var;
                if var.flat { var.dom = Dom::Off; } // a dominance rule needs the depth
                Box::new(self.build_tm(idx, var))
            }
        }
    }
    pub fn id_json(&self, idx: u64, var: Variant) -> Value { json!({"family": self.name(), "idx": idx, "variant": var.json()}) }
}

/// All families known to the harness, by name (used by replay files)
pub fn all_families() -> Vec<Fam> {
    let tmb4 = Fam::Tm { name: "TM-B4", n: 4, s: 2, nd: 2, costs: vec![0, 1], bot: false, structure: Structure::Butterfly };
    vec![
        Fam::Tm { name: "TM-A", n: 3, s: 2, nd: 2, costs: vec![0, 1], bot: false, structure: Structure::Free },
        Fam::Tm { name: "TM-Abot", n: 3, s: 2, nd: 2, costs: vec![0, 2], bot: true, structure: Structure::Free },
        Fam::Tm { name: "TM-0a", n: 0, s: 1, nd: 1, costs: vec![0], bot: false, structure: Structure::Free },
        Fam::Tm { name: "TM-0b", n: 1, s: 2, nd: 2, costs: vec![-1, 0, 1], bot: true, structure: Structure::Free },
        Fam::Tm { name: "TM-0c", n: 2, s: 2, nd: 2, costs: vec![-1, 1], bot: true, structure: Structure::Free },
        tmb4.clone(),
        Fam::Tm { name: "TM-B4w", n: 4, s: 2, nd: 2, costs: vec![0, 1, 2], bot: false, structure: Structure::Butterfly },
        Fam::Tm { name: "TM-B4n", n: 4, s: 2, nd: 2, costs: vec![-1, 0, 2], bot: false, structure: Structure::Butterfly },
        Fam::Tm { name: "TM-B5", n: 5, s: 2, nd: 2, costs: vec![0, 1], bot: false, structure: Structure::Butterfly },
        Fam::Tm { name: "TM-D3", n: 3, s: 3, nd: 2, costs: vec![0, 1], bot: false, structure: Structure::Shift },
        Fam::Tm { name: "TM-D4", n: 4, s: 3, nd: 2, costs: vec![0, 1], bot: false, structure: Structure::Shift },
        Fam::TmNeigh { name: "TM-N0.1", seed: 0, k: 1 },
        Fam::TmNeigh { name: "TM-N1.1", seed: 1, k: 1 },
        Fam::TmNeigh { name: "TM-N2.1", seed: 2, k: 1 },
        Fam::TmNeigh { name: "TM-N3.1", seed: 3, k: 1 },
        Fam::TmNeigh { name: "TM-N0.2", seed: 0, k: 2 },
        Fam::TmNeigh { name: "TM-N1.2", seed: 1, k: 2 },
        Fam::TmNeigh { name: "TM-N2.2", seed: 2, k: 2 },
        Fam::TmNeigh { name: "TM-N3.2", seed: 3, k: 2 },
        Fam::TmIrr { name: "TM-B4irr", base: Box::new(tmb4), max_irr: 3 },
        Fam::TmIrr { name: "TM-N0.1irr", base: Box::new(Fam::TmNeigh { name: "TM-N0.1", seed: 0, k: 1 }), max_irr: 2 },
        Fam::TmIrr { name: "TM-N1.1irr", base: Box::new(Fam::TmNeigh { name: "TM-N1.1", seed: 1, k: 1 }), max_irr: 2 },
        Fam::TmIrr { name: "TM-N0.0irr", base: Box::new(Fam::TmNeigh { name: "TM-N0.0", seed: 0, k: 0 }), max_irr: 3 },
        Fam::TmIrr { name: "TM-N1.0irr", base: Box::new(Fam::TmNeigh { name: "TM-N1.0", seed: 1, k: 0 }), max_irr: 3 },
        Fam::TmIrr { name: "TM-N2.0irr", base: Box::new(Fam::TmNeigh { name: "TM-N2.0", seed: 2, k: 0 }), max_irr: 3 },
        Fam::TmIrr { name: "TM-N3.0irr", base: Box::new(Fam::TmNeigh { name: "TM-N3.0", seed: 3, k: 0 }), max_irr: 3 },
        Fam::Sp { name: "SP-2", m: 2 },
        Fam::Sp { name: "SP-3", m: 3 },
        Fam::Sp { name: "SP-4", m: 4 },
        Fam::Sp { name: "SP-5", m: 5 },
        Fam::Kp { name: "KP-2", n: 2 },
        Fam::Kp { name: "KP-3", n: 3 },
        Fam::Kp { name: "KP-4", n: 4 },
        Fam::Kp { name: "KP-5", n: 5 },
        Fam::Kp { name: "KP-6", n: 6 },
        Fam::Kpb { name: "KPB-6", n: 6 },
        Fam::Kpb { name: "KPB-7", n: 7 },
        Fam::Kpz { name: "KPZ-3", n: 3 },
        Fam::Kpz { name: "KPZ-4", n: 4 },
        Fam::Kph { name: "KPH-0", seed: 0 },
        Fam::Kph { name: "KPH-1", seed: 1 },
        Fam::Kph { name: "KPH-2", seed: 2 },
    ]
}
pub fn family(name: &str) -> Fam {
    all_families().into_iter().find(|f| f.name() == name).unwrap_or_else(|| panic!("unknown family {}", name))
}
pub fn from_id(v: &Value) -> (Fam, u64, Variant) {
    (family(v["family"].as_str().unwrap()), v["idx"].as_u64().unwrap(), Variant::from_json(&v["variant"]))
}
