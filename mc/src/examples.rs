pub fn check(_tier: &str) -> i32 { 2 }
