//! E6: the shipped example programs.  For every example: a bounded-exhaustive generator of tiny, undeniably
//! well-formed instance FILES, an oracle written from the problem statement (brute force over the combinatorial
//! object, independent of the DP model), and the real example BINARY built from /repo's working tree, run with
//! several widths / thread counts.  Serves C16.
use crate::par::*;
use crate::report::*;
use serde_json::{json, Value};
use std::collections::BTreeMap;
use std::process::{Command, Stdio};
use std::time::{Duration, Instant};

#[derive(Clone, Debug)]
pub enum Expect { Value(f64), Infeasible }
#[derive(Clone, Debug)]
pub struct Case { pub text: String, pub expect: Expect, pub descr: String }

fn perms(n: usize) -> Vec<Vec<usize>> {
    fn rec(cur: &mut Vec<usize>, used: &mut Vec<bool>, n: usize, out: &mut Vec<Vec<usize>>) {
        if cur.len() == n { out.push(cur.clone()); return; }
        for i in 0..n { if !used[i] { used[i] = true; cur.push(i); rec(cur, used, n, out); cur.pop(); used[i] = false; } }
    }
    let mut out = vec![];
    rec(&mut vec![], &mut vec![false; n], n, &mut out);
    out
}
/// mixed radix digit extraction
fn digit(r: &mut u64, base: u64) -> u64 { let d = *r % base; *r /= base; d }
fn binom(n: u64, k: u64) -> u64 { if k > n { 0 } else { (0..k).fold(1u64, |a, i| a * (n - i) / (i + 1)) } }
/// idx-th k-subset of 0..n in lexicographic order
fn subset(n: u64, k: u64, mut idx: u64) -> Vec<usize> {
    let mut out = vec![];
    let mut start = 0;
    for j in 0..k {
        let mut x = start;
        loop { let c = binom(n - x - 1, k - j - 1); if idx < c { break; } idx -= c; x += 1; }
        out.push(x as usize);
        start = x + 1;
    }
    out
}

pub struct Example {
    pub name: &'static str,
    pub scope: String,
    pub count: u64,
    pub gen: Box<dyn Fn(u64) -> Case + Sync>,
    /// argument sets: each run = binary + file argument(s) + one of these
    pub arg_sets: Vec<Vec<String>>,
    /// how the file is passed
    pub file_flag: Option<&'static str>,
    pub tsptw_output: bool,
    /// hand-written instances appended to the enumerated scope (index = count + i): inputs of recorded findings
    pub extra: Vec<Case>,
}

fn argsets(widths: &[Option<usize>], threads: &[Option<usize>], wflag: &str, tflag: &str) -> Vec<Vec<String>> {
    let mut v = vec![];
    for w in widths { for (ti, t) in threads.iter().enumerate() {
        // quick tier (two thread counts): the second thread count runs with the default width and width 1 only
        if threads.len() == 2 && ti == 1 && !matches!(w, None | Some(1)) { continue; }
        let mut a = vec![];
        if let Some(w) = w { a.push(wflag.to_string()); a.push(w.to_string()); }
        if let Some(t) = t { a.push(tflag.to_string()); a.push(t.to_string()); }
        v.push(a);
    } }
    v
}

pub fn examples(th: bool) -> Vec<Example> {
    let w4 = [None, Some(1), Some(2), Some(3)];
    let t3 = [Some(1), Some(2), Some(4)];
    let t_q = [Some(1), Some(3)];
    let tt: &[Option<usize>] = if th { &t3 } else { &t_q };
    let mut ex = vec![];

    // ---------------------------------------------------------------- knapsack
    {
        let scopes: Vec<(usize, u64)> = if th { vec![(1, 3), (2, 3), (3, 3), (4, 2)] } else { vec![(1, 3), (2, 3), (3, 2)] };
        let mut sizes: Vec<u64> = scopes.iter().map(|(n, a)| 7 * ((a + 1) * (a + 1)).pow(*n as u32)).collect();
        // D15 (see DESIGN section 4): the fractional part of the example's rough bound is computed in floating point and floored:
        // 15/22*22 = 14.999.. => 14.  It takes items of ratio exactly 1 whose weights do not divide each other: a last block holds
        // all 3-item instances over {(7,7),(14,14),(15,15),(22,22)} with capacity 15 or 22
        let ratio_one: Vec<(usize, usize)> = vec![(7, 7), (14, 14), (15, 15), (22, 22)];
        sizes.push(2 * (ratio_one.len() as u64).pow(3));
        let count = sizes.iter().sum();
        let sc = scopes.clone();
        ex.push(Example { name: "knapsack", scope: format!("(items, a) in {:?}: weights 0..a, profits 0..a (worthless and weightless items included), capacity 0..=6, all combinations; plus all 3-item instances over the items {:?} with capacity 15 or 22", scopes, ratio_one), count, file_flag: None, tsptw_output: false, extra: vec![],
            arg_sets: argsets(&w4, &[None], "-w", "-t"),
            gen: Box::new(move |mut idx| {
                let mut k = 0;
                while idx >= sizes[k] { idx -= sizes[k]; k += 1; }
                let (n, cap, items): (usize, usize, Vec<(usize, usize)>) = if k < sc.len() {
                    let (n, a) = sc[k];
                    let cap = digit(&mut idx, 7) as usize;
                    let items: Vec<(usize, usize)> = (0..n).map(|_| { let p = digit(&mut idx, a + 1) as usize; let w = digit(&mut idx, a + 1) as usize; (p, w) }).collect();
                    (n, cap, items)
                } else {
                    let cap = [15usize, 22][digit(&mut idx, 2) as usize];
                    (3, cap, (0..3).map(|_| ratio_one[digit(&mut idx, ratio_one.len() as u64) as usize]).collect())
                };
                let mut best = 0;
                for m in 0..(1u32 << n) { let w: usize = (0..n).filter(|i| m & (1 << i) != 0).map(|i| items[i].1).sum(); if w <= cap { let p: usize = (0..n).filter(|i| m & (1 << i) != 0).map(|i| items[i].0).sum(); best = best.max(p); } }
                let text = format!("{} {}\n{}", n, cap, items.iter().map(|(p, w)| format!("{} {}\n", p, w)).collect::<String>());
                Case { text, expect: Expect::Value(best as f64), descr: format!("cap {} items(profit,weight) {:?}", cap, items) }
            }) });
    }
    // ---------------------------------------------------------------- misp
    {
        let ns: Vec<usize> = if th { vec![1, 2, 3, 4, 5] } else { vec![1, 2, 3, 4] };
        let sizes: Vec<u64> = ns.iter().map(|n| (1u64 << (n * (n - 1) / 2)) * (1u64 << n)).collect();
        let count = sizes.iter().sum();
        let nsc = ns.clone();
        ex.push(Example { name: "misp", scope: format!("all graphs on n vertices, n in {:?}, vertex weights in {{1,2}}^n", ns), count, file_flag: None, tsptw_output: false, extra: vec![],
            arg_sets: argsets(&w4, tt, "-w", "-t"),
            gen: Box::new(move |mut idx| {
                let mut k = 0;
                while idx >= sizes[k] { idx -= sizes[k]; k += 1; }
                let n = nsc[k];
                let ne = n * (n - 1) / 2;
                let g = digit(&mut idx, 1 << ne);
                let w: Vec<usize> = (0..n).map(|_| digit(&mut idx, 2) as usize + 1).collect();
                let mut edges = vec![];
                let mut bit = 0;
                for u in 0..n { for v in u + 1..n { if g & (1 << bit) != 0 { edges.push((u, v)); } bit += 1; } }
                let mut best = 0;
                for m in 0..(1u32 << n) { if edges.iter().all(|(u, v)| !(m & (1 << u) != 0 && m & (1 << v) != 0)) { best = best.max((0..n).filter(|i| m & (1 << i) != 0).map(|i| w[i]).sum::<usize>()); } }
                let mut text = format!("c generated\np edge {} {}\n", n, edges.len());
                for (i, x) in w.iter().enumerate() { text.push_str(&format!("n {} {}\n", i + 1, x)); }
                for (u, v) in edges.iter() { text.push_str(&format!("e {} {}\n", u + 1, v + 1)); }
                Case { text, expect: Expect::Value(best as f64), descr: format!("weights {:?} edges {:?}", w, edges) }
            }) });
    }
    // ---------------------------------------------------------------- max2sat
    {
        // clause universe for n variables: unit clauses (2n), tautologies (x or not x: n; the reader accepts them and the
        // model accounts for them separately) and binary clauses on two distinct variables (4 per pair)
        let universe = |n: usize| -> Vec<Vec<i32>> {
            let mut u = vec![];
            for x in 1..=n as i32 { u.push(vec![x]); u.push(vec![-x]); }
            for x in 1..=n as i32 { u.push(vec![-x, x]); }
            for x in 1..=n as i32 { for y in x + 1..=n as i32 { for (sx, sy) in [(1, 1), (1, -1), (-1, 1), (-1, -1)] { u.push(vec![sx * x, sy * y]); } } }
            u
        };
        let scopes: Vec<(usize, usize)> = if th { vec![(1, 2), (2, 3), (3, 3)] } else { vec![(1, 2), (2, 3), (3, 2)] };
        let mut blocks: Vec<(usize, usize, u64)> = vec![]; // (n, k clauses, size)
        for (n, kmax) in scopes.iter() { let u = universe(*n).len() as u64; for k in 1..=*kmax { if k as u64 <= u { blocks.push((*n, k, binom(u, k as u64) * (1u64 << k))); } } }
        let count = blocks.iter().map(|b| b.2).sum();
        ex.push(Example { name: "max2sat", scope: format!("(variables, max clauses) in {:?}: all sets of distinct unit/binary clauses (tautologies x or not x included), weights in {{1,2}}", scopes), count, file_flag: Some("--file"), tsptw_output: false, extra: vec![],
            arg_sets: argsets(&w4, &[None], "-w", "-t"),
            gen: Box::new(move |mut idx| {
                let mut b = 0;
                while idx >= blocks[b].2 { idx -= blocks[b].2; b += 1; }
                let (n, k, _) = blocks[b];
                let u = universe(n);
                let nsub = binom(u.len() as u64, k as u64);
                let sub = subset(u.len() as u64, k as u64, idx % nsub);
                let mut r = idx / nsub;
                let clauses: Vec<(usize, Vec<i32>)> = sub.iter().map(|c| (digit(&mut r, 2) as usize + 1, u[*c].clone())).collect();
                let mut best = 0;
                for a in 0..(1u32 << n) {
                    let sat = |l: i32| { let v = (a >> (l.abs() - 1)) & 1 == 1; if l > 0 { v } else { !v } };
                    best = best.max(clauses.iter().filter(|(_, c)| c.iter().any(|l| sat(*l))).map(|(w, _)| *w).sum::<usize>());
                }
                let mut text = format!("c generated\np wcnf {} {}\n", n, clauses.len());
                for (w, c) in clauses.iter() { text.push_str(&format!("{} {} 0\n", w, c.iter().map(|l| l.to_string()).collect::<Vec<_>>().join(" "))); }
                Case { text, expect: Expect::Value(best as f64), descr: format!("{} vars, clauses (weight, literals) {:?}", n, clauses) }
            }) });
    }
    // ---------------------------------------------------------------- mcp
    {
        // quick: the 4-vertex graphs use the weight alphabet {absent, -1, 2} only
        let ns: Vec<usize> = vec![2, 3, 4];
        let alpha = move |n: usize| -> u64 { if n == 4 && !th { 3 } else { 4 } };
        let sizes: Vec<u64> = ns.iter().map(|n| alpha(*n).pow((n * (n - 1) / 2) as u32)).collect();
        let count = sizes.iter().sum();
        let nsc = ns.clone();
        ex.push(Example { name: "mcp", scope: format!("all graphs on n vertices, n in {:?}, every edge absent or weighted -1, 1 or 2{}", ns, if th { "" } else { " (4 vertices: absent, -1 or 2)" }), count, file_flag: Some("--file"), tsptw_output: false, extra: vec![],
            arg_sets: argsets(&w4, &[None], "-w", "-t"),
            gen: Box::new(move |mut idx| {
                let mut k = 0;
                while idx >= sizes[k] { idx -= sizes[k]; k += 1; }
                let n = nsc[k];
                let mut edges = vec![];
                for u in 0..n { for v in u + 1..n { let d = digit(&mut idx, alpha(n)); if d > 0 { edges.push((u, v, if alpha(n) == 3 { [-1i64, 2][d as usize - 1] } else { [-1i64, 1, 2][d as usize - 1] })); } } }
                let mut best = i64::MIN;
                for m in 0..(1u32 << n) { if m & 1 == 0 { let c: i64 = edges.iter().filter(|(u, v, _)| ((m >> u) & 1) != ((m >> v) & 1)).map(|e| e.2).sum(); best = best.max(c); } }
                let mut text = format!("c generated\n{} {}\n", n, edges.len());
                for (u, v, w) in edges.iter() { text.push_str(&format!("{} {} {}\n", u + 1, v + 1, w)); }
                Case { text, expect: Expect::Value(best as f64), descr: format!("{} vertices, edges {:?}", n, edges) }
            }) });
    }
    // ---------------------------------------------------------------- lcs
    {
        // maintenance knob (never set by a registered command): VERIF_LCS_SCOPE="<max length>,<alphabet size>"
        let (maxlen, alpha): (usize, u32) = std::env::var("VERIF_LCS_SCOPE").ok().and_then(|s| { let mut it = s.split(','); Some((it.next()?.trim().parse().ok()?, it.next()?.trim().parse().ok()?)) }).unwrap_or((3, 2));
        let mut strs: Vec<String> = vec![];
        for l in 1..=maxlen { for m in 0..alpha.pow(l as u32) { let mut m = m; strs.push((0..l).map(|_| { let c = (b'a' + (m % alpha) as u8) as char; m /= alpha; c }).collect()); } }
        let ns = strs.len() as u64;
        let count = ns * ns + if th && maxlen <= 3 { ns * ns * ns } else { 0 };
        ex.push(Example { name: "lcs", scope: format!("all ordered tuples of {} strings of length 1..={} over an alphabet of {} letters", if th { "2 and 3" } else { "2" }, maxlen, alpha), count, file_flag: None, tsptw_output: false, extra: vec![],
            arg_sets: argsets(&w4, tt, "-w", "-t"),
            gen: Box::new(move |mut idx| {
                let k = if idx < ns * ns { 2 } else { idx -= ns * ns; 3 };
                let combo: Vec<String> = (0..k).map(|_| strs[digit(&mut idx, ns) as usize].clone()).collect();
                let is_sub = |x: &str, s: &str| { let mut it = s.chars(); x.chars().all(|c| it.any(|d| d == c)) };
                let first = &combo[0];
                let mut best = 0;
                for m in 0..(1u32 << first.len()) {
                    let x: String = first.chars().enumerate().filter(|(i, _)| m & (1 << i) != 0).map(|(_, c)| c).collect();
                    if combo.iter().all(|s| is_sub(&x, s)) { best = best.max(x.len()); }
                }
                let mut chars: Vec<char> = combo.iter().flat_map(|s| s.chars()).collect();
                chars.sort(); chars.dedup();
                let text = format!("{} {}\n{}", k, chars.len(), combo.iter().map(|s| format!("{} {}\n", s.len(), s)).collect::<String>());
                Case { text, expect: Expect::Value(best as f64), descr: format!("strings {:?}", combo) }
            }) });
    }
    // ---------------------------------------------------------------- lcs, longer strings, one worker thread (D16)
    {
        // D16 = D2 (pooled diagram with long arcs: a sub-problem landed in its own cut-set) seen through the lcs example, whose
        // solver is the parallel caching pooled one: the re-enqueued sub-problem had been marked explored when first popped and was
        // dropped => a suboptimal length printed as proved with -w 1.  It takes strings of length 6.  Repaired (see DESIGN section 4).
        // These runs use ONE worker thread (while D16 was a known finding restricted to listed inputs it had to be deterministic).
        let maxlen = 6usize;
        let mut strs: Vec<String> = vec![];
        for l in 1..=maxlen { for m in 0..(1u32 << l) { strs.push((0..l).map(|i| if m & (1 << i) != 0 { 'b' } else { 'a' }).collect()); } }
        let ns = strs.len() as u64;
        let count = if th { ns * ns } else { 0 };
        let lcs_case = |combo: Vec<String>| -> Case {
            let is_sub = |x: &str, s: &str| { let mut it = s.chars(); x.chars().all(|c| it.any(|d| d == c)) };
            let first = &combo[0];
            let mut best = 0;
            for m in 0..(1u32 << first.len()) {
                let x: String = first.chars().enumerate().filter(|(i, _)| m & (1 << i) != 0).map(|(_, c)| c).collect();
                if combo.iter().all(|s| is_sub(&x, s)) { best = best.max(x.len()); }
            }
            let mut chars: Vec<char> = combo.iter().flat_map(|s| s.chars()).collect();
            chars.sort(); chars.dedup();
            let text = format!("{} {}\n{}", combo.len(), chars.len(), combo.iter().map(|s| format!("{} {}\n", s.len(), s)).collect::<String>());
            Case { text, expect: Expect::Value(best as f64), descr: format!("strings {:?}", combo) }
        };
        let extra = vec![lcs_case(vec!["abaaaa".to_string(), "baaaba".to_string()]), lcs_case(vec!["caabab".to_string(), "aacbab".to_string()])];
        let strs2 = strs.clone();
        ex.push(Example { name: "lcs@long", scope: format!("one worker thread: {} + 2 hand-written pairs of length 6 (D16)", if th { "all ordered pairs of strings of length 1..=6 over {a,b}" } else { "no generated instance in the quick tier" }), count, file_flag: None, tsptw_output: false, extra,
            arg_sets: argsets(&w4, &[Some(1)], "-w", "-t"),
            gen: Box::new(move |mut idx| { let combo: Vec<String> = (0..2).map(|_| strs2[digit(&mut idx, ns) as usize].clone()).collect(); lcs_case(combo) }) });
    }
    // ---------------------------------------------------------------- golomb
    {
        // optimal ruler by depth first search with iterative deepening on the length (from the problem statement)
        fn golomb_opt(n: usize) -> usize {
            fn ok(marks: &[usize]) -> bool { let last = marks.len() - 1; let mut seen = [false; 128]; for i in 0..marks.len() { for j in i + 1..marks.len() { let d = marks[j] - marks[i]; if seen[d] { return false; } seen[d] = true; } } let _ = last; true }
            fn extend(marks: &mut Vec<usize>, n: usize, len: usize) -> bool {
                if marks.len() == n { return *marks.last().unwrap() == len; }
                let from = marks.last().unwrap() + 1;
                // the marks still to be placed need at least 1 + 2 + .. more room
                let rem = n - marks.len();
                if from + rem * (rem - 1) / 2 > len + 1 { return false; }
                for x in from..=len { marks.push(x); if ok(marks) && extend(marks, n, len) { marks.pop(); return true; } marks.pop(); }
                false
            }
            let mut len = n * (n - 1) / 2;
            loop { if extend(&mut vec![0], n, len) { return len; } len += 1; }
        }
        let sizes: Vec<usize> = if th { vec![2, 3, 4, 5, 6, 7, 8, 9] } else { vec![2, 3, 4, 5, 6, 7, 8] };
        let sc = sizes.clone();
        ex.push(Example { name: "golomb", scope: format!("number of marks in {:?} (oracle: exhaustive search over mark sets)", sizes), count: sizes.len() as u64, file_flag: Some("GOLOMB"), tsptw_output: false, extra: vec![],
            arg_sets: argsets(&[None, Some(1), Some(2), Some(3), Some(10)], &[None], "-w", "-t"),
            gen: Box::new(move |idx| {
                let n = sc[idx as usize];
                let len = golomb_opt(n);
                Case { text: format!("{}", n), expect: Expect::Value(-(len as f64)), descr: format!("{} marks (optimal ruler length {})", n, len) }
            }) });
        // larger rulers at width 1 only (a merge operator which is no relaxation only shows where the width-1 restricted diagram
        // misses the optimum: 9 and 10 marks -- seeded change C16qr4)
        let big: Vec<usize> = if th { vec![9, 10] } else { vec![9] };
        let bg = big.clone();
        ex.push(Example { name: "golomb@w1", scope: format!("number of marks in {:?}, width 1 only", big), count: big.len() as u64, file_flag: Some("GOLOMB"), tsptw_output: false, extra: vec![],
            arg_sets: argsets(&[Some(1)], &[None], "-w", "-t"),
            gen: Box::new(move |idx| {
                let n = bg[idx as usize];
                let len = golomb_opt(n);
                Case { text: format!("{}", n), expect: Expect::Value(-(len as f64)), descr: format!("{} marks (optimal ruler length {})", n, len) }
            }) });
    }
    // ---------------------------------------------------------------- sop
    {
        // nodes 0..n-1, 0 first, n-1 last; relevant distances: 0->i, i->j, i->n-1 for inner i != j; precedence DAGs on the inner nodes
        let dags = |inner: usize| -> Vec<Vec<(usize, usize)>> {
            // all transitively closed acyclic relations on `inner` elements (numbered 1..=inner)
            let pairs: Vec<(usize, usize)> = (1..=inner).flat_map(|a| (a + 1..=inner).map(move |b| (a, b))).collect();
            let mut out = vec![];
            for code in 0..3u32.pow(pairs.len() as u32) {
                let mut c = code;
                let mut prec: Vec<(usize, usize)> = vec![];
                for (a, b) in pairs.iter() { match c % 3 { 1 => prec.push((*a, *b)), 2 => prec.push((*b, *a)), _ => () } c /= 3; }
                let closed = prec.iter().all(|(a, b)| prec.iter().all(|(c2, d)| b != c2 || prec.contains(&(*a, *d))));
                let acyclic = prec.iter().all(|(a, b)| !prec.contains(&(*b, *a)));
                if closed && acyclic { out.push(prec); }
            }
            out
        };
        let scopes: Vec<(usize, u64)> = if th { vec![(3, 3), (4, 3), (5, 2)] } else { vec![(3, 3), (4, 2)] }; // (n, distance alphabet size)
        let info: Vec<(usize, u64, Vec<Vec<(usize, usize)>>, usize)> = scopes.iter().map(|(n, a)| { let inner = n - 2; (*n, *a, dags(inner), inner * 2 + inner * (inner - 1)) }).collect();
        let sizes: Vec<u64> = info.iter().map(|(_, a, d, e)| d.len() as u64 * a.pow(*e as u32)).collect();
        let count = sizes.iter().sum();
        let d20 = Case { text: "NAME: rnd.sop\nTYPE: SOP\nCOMMENT: random\nDIMENSION: 10\nEDGE_WEIGHT_TYPE: EXPLICIT\nEDGE_WEIGHT_FORMAT: FULL_MATRIX\nEDGE_WEIGHT_SECTION\n10\n0 46 24 33 47 31 6 26 42 1000000\n-1 0 8 0 33 0 0 29 22 0\n-1 32 0 22 24 0 0 22 35 2\n-1 16 19 0 25 13 26 21 13 0\n-1 35 24 10 0 9 0 13 12 1\n-1 50 26 26 39 0 16 35 38 1\n-1 17 0 12 15 41 0 11 40 0\n-1 51 33 36 33 20 20 0 33 1\n-1 44 34 36 40 23 17 29 0 1\n-1 -1 -1 -1 -1 -1 -1 -1 -1 0\nEOF\n".to_string(),
            expect: Expect::Value(122.0), descr: "D20 instance: 10 nodes, no precedence among the inner nodes, optimum 122 (found by an independent random search)".to_string() };
        let d12 = Case { text: "NAME: d12.sop\nTYPE: SOP\nCOMMENT: 7 nodes, found by an independent random search (seeded/C16b/notes.md), D12 repaired\nDIMENSION: 7\nEDGE_WEIGHT_TYPE: EXPLICIT\nEDGE_WEIGHT_FORMAT: FULL_MATRIX\nEDGE_WEIGHT_SECTION\n7\n0 15 19 14 1 16 1000000\n-1 0 1 3 -1 9 0\n-1 1 0 8 4 13 9\n-1 17 3 0 8 -1 16\n-1 10 8 15 0 9 7\n-1 3 5 13 1 0 13\n-1 -1 -1 -1 -1 -1 0\nEOF\n".to_string(),
            expect: Expect::Value(27.0), descr: "D12 instance: 7 nodes, precedences 4 < 1 and 5 < 3, optimum 27 = 0 4 5 3 2 1 6".to_string() };
        ex.push(Example { name: "sop", scope: format!("(nodes, distance alphabet 1..a) in {:?}: all relevant distance assignments x all precedence DAGs on the inner nodes", scopes), count, file_flag: None, tsptw_output: false, extra: vec![d12, d20],
            arg_sets: argsets(&w4, tt, "-w", "-t"),
            gen: Box::new(move |mut idx| {
                let mut k = 0;
                while idx >= sizes[k] { idx -= sizes[k]; k += 1; }
                let (n, a, dg, _) = &info[k];
                let n = *n;
                let prec = dg[digit(&mut idx, dg.len() as u64) as usize].clone();
                let mut d = vec![vec![0i64; n]; n];
                for i in 0..n { for j in 0..n {
                    if i == j { d[i][j] = 0; }
                    else if j == 0 || i == n - 1 { d[i][j] = -1; }
                    else if prec.contains(&(j, i)) { d[i][j] = -1; }
                    else if i == 0 && j == n - 1 && n > 2 { d[i][j] = 9; }
                    else { d[i][j] = digit(&mut idx, *a) as i64 + 1; }
                } }
                let inner: Vec<usize> = (1..n - 1).collect();
                let mut best: Option<i64> = None;
                for p in perms(inner.len()) {
                    let seq: Vec<usize> = std::iter::once(0).chain(p.iter().map(|i| inner[*i])).chain(std::iter::once(n - 1)).collect();
                    let pos = |v: usize| seq.iter().position(|x| *x == v).unwrap();
                    if prec.iter().any(|(x, y)| pos(*x) > pos(*y)) { continue; }
                    let c: i64 = (0..n - 1).map(|i| d[seq[i]][seq[i + 1]]).sum();
                    if best.map_or(true, |b| c < b) { best = Some(c); }
                }
                let text = format!("NAME: gen\nTYPE: SOP\nEDGE_WEIGHT_SECTION\n{}\n{}EOF\n", n, d.iter().map(|r| r.iter().map(|x| x.to_string()).collect::<Vec<_>>().join(" ") + "\n").collect::<String>());
                Case { text, expect: match best { Some(b) => Expect::Value(b as f64), None => Expect::Infeasible }, descr: format!("{} nodes, precedences {:?}, matrix {:?}", n, prec, d) }
            }) });
    }
    // ---------------------------------------------------------------- sop: neighbourhoods of hand-written instances
    {
        // deviation bounding applied to inputs: three hand-written matrices (7, 8 and 8 nodes; the first is the input of D12, the
        // second the demonstration of the seeded change C16vr6 -- merged states with mandatory AND optional jobs need >= 8 nodes)
        // and ALL matrices at Hamming distance 1 (one distance raised or lowered by one; precedences untouched)
        let seeds: Vec<Vec<Vec<i64>>> = vec![
            vec![vec![0, 15, 19, 14, 1, 16, 1000000], vec![-1, 0, 1, 3, -1, 9, 0], vec![-1, 1, 0, 8, 4, 13, 9], vec![-1, 17, 3, 0, 8, -1, 16], vec![-1, 10, 8, 15, 0, 9, 7], vec![-1, 3, 5, 13, 1, 0, 13], vec![-1, -1, -1, -1, -1, -1, 0]],
            vec![vec![0, 2, 1, 2, 1, 2, 1, 0], vec![-1, 0, 1, 0, 0, 1, 1, 0], vec![-1, 2, 0, 2, -1, -1, 2, 0], vec![-1, 2, 0, 0, 1, 0, 0, 1], vec![-1, 2, 2, 1, 0, -1, 0, 1], vec![-1, 1, 2, 0, 2, 0, 0, 2], vec![-1, -1, 2, 0, 0, 0, 0, 2], vec![-1, -1, -1, -1, -1, -1, -1, 0]],
            vec![vec![0, 3, 1, 2, 2, 1, 3, 9], vec![-1, 0, 2, 1, 3, 2, 1, 2], vec![-1, 1, 0, 3, 1, -1, 2, 1], vec![-1, 2, 2, 0, 1, 3, -1, 3], vec![-1, 3, 1, 2, 0, 1, 2, 2], vec![-1, 1, 3, 1, 2, 0, 3, 1], vec![-1, 2, 1, 3, 1, 2, 0, 2], vec![-1, -1, -1, -1, -1, -1, -1, 0]],
        ];
        // the entries which may change: i -> j for i != j, j != 0, i != n-1, not a precedence (-1), not the 0 -> n-1 arc
        let slots: Vec<Vec<(usize, usize)>> = seeds.iter().map(|d| { let n = d.len(); (0..n).flat_map(|i| (0..n).map(move |j| (i, j))).filter(|(i, j)| i != j && *j != 0 && *i != n - 1 && d[*i][*j] >= 0 && !(*i == 0 && *j == n - 1)).collect() }).collect();
        let sizes: Vec<u64> = slots.iter().map(|s| 1 + 2 * s.len() as u64).collect();
        let count = sizes.iter().sum();
        ex.push(Example { name: "sop@near", scope: "three hand-written matrices (7, 8, 8 nodes, with precedences) and all matrices at Hamming distance 1 from them (one distance +1 or -1, never below 0)".to_string(), count, file_flag: None, tsptw_output: false, extra: vec![],
            arg_sets: argsets(&w4, tt, "-w", "-t"),
            gen: Box::new(move |mut idx| {
                let mut k = 0;
                while idx >= sizes[k] { idx -= sizes[k]; k += 1; }
                let mut d = seeds[k].clone();
                let n = d.len();
                if idx >= 1 { let (i, j) = slots[k][((idx - 1) / 2) as usize]; if (idx - 1) % 2 == 0 { d[i][j] += 1; } else { d[i][j] = (d[i][j] - 1).max(0); } }
                // oracle: subset DP over (visited set, last) from node 0 to node n-1, precedence j before i whenever d[i][j] == -1
                let full = 1usize << n;
                let inf = i64::MAX / 4;
                let mut best = vec![vec![inf; n]; full];
                best[1][0] = 0;
                for set in 1..full { for last in 0..n { let c = best[set][last]; if c >= inf { continue; }
                    for nx in 0..n { if set & (1 << nx) != 0 || d[last][nx] < 0 { continue; }
                        // every node which must precede nx is already visited
                        if (0..n).any(|q| q != nx && d[nx][q] == -1 && set & (1 << q) == 0) { continue; }
                        let ns = set | (1 << nx); let v = c + d[last][nx]; if v < best[ns][nx] { best[ns][nx] = v; } } } }
                let b = best[full - 1][n - 1];
                let text = format!("NAME: near\nTYPE: SOP\nEDGE_WEIGHT_SECTION\n{}\n{}EOF\n", n, d.iter().map(|r| r.iter().map(|x| x.to_string()).collect::<Vec<_>>().join(" ") + "\n").collect::<String>());
                Case { text, expect: if b >= inf { Expect::Infeasible } else { Expect::Value(b as f64) }, descr: format!("{} nodes, matrix {:?}", n, d) }
            }) });
    }
    // ---------------------------------------------------------------- tsptw
    {
        // n nodes (0 = depot), distances closed under shortest paths, windows, depot horizon.  Three blocks:
        //  S: symmetric distances over {1,2}, windows earliest {0,2,4} x width {0,2,5}, horizon {6,9,14}
        //  A: ASYMMETRIC distances over {1,2} on 3 nodes, windows earliest {0,2} x width {0,5}, horizon {6,9,14}
        //  D: 4 nodes, all distances 1 except <= 2 directed entries raised to 3 (deviation-bounded asymmetry), windows width {4,9} from 0, horizon {9,14}
        #[derive(Clone, Copy, PartialEq)]
        enum B { S(usize), A(usize), D, N }
        //  N: NON METRIC: all asymmetric matrices over {1,3} on 3 nodes (3 > 1 + 1), windows earliest {0,2} x width {0,5}, horizon {6,9,14};
        //     block D is non metric as well
        let mut blocks: Vec<(B, u64)> = vec![(B::S(2), 1 * 9 * 3), (B::S(3), 8 * 81 * 3), (B::A(3), 64 * 16 * 3), (B::D, 79 * 8 * 2), (B::N, 64 * 16 * 3)];
        if th { blocks.push((B::S(4), 64 * 729 * 3)); blocks.push((B::A(3), 64 * 81 * 3)); }
        // D19 (see DESIGN section 4): two instances met by an independent random search, on which the dev-profile binary crashed
        // ("attempt to subtract with overflow" in fast_upper_bound: a merged state had spent on optional customers the moves it
        // needed for the mandatory ones); the workers of the parallel solver then wait for ever
        let ts_case = |d: Vec<Vec<i64>>, tw: Vec<(i64, i64)>, opt: f64| -> Case {
            let n = d.len();
            let text = format!("# hand written\n{}\n{}{}", n, d.iter().map(|r| r.iter().map(|x| x.to_string()).collect::<Vec<_>>().join(" ") + "\n").collect::<String>(), tw.iter().map(|(a, b)| format!("{} {}\n", a, b)).collect::<String>());
            Case { text, expect: Expect::Value(opt), descr: format!("distances {:?} windows {:?}", d, tw) }
        };
        // D21 / D22 (see DESIGN section 4): the reader converted decimal numbers through `(f32 * 10000.0) as usize` (0.39 => 3899: a
        // deadline rounded DOWN, a feasible instance reported infeasible; integers above 26 844 are not exact in f32 either), and the
        // objective was printed through f32 (107379 => 107378.99)
        let d21a = Case { text: "# decimals\n3\n0 0.20 0.30\n0.20 0 0.19\n0.30 0.19 0\n0 100\n0 0.25\n0 0.39\n".to_string(), expect: Expect::Value(0.69), descr: "D21 instance: distances 0.20 0.19 0.30, windows [0,0.25] [0,0.39], optimum 0.69".to_string() };
        let d21b = Case { text: "# large integers\n3\n0 20000 20000\n20000 0 6845\n20000 6845 0\n0 99999\n0 20000\n0 26845\n".to_string(), expect: Expect::Value(46845.0), descr: "D21 instance: distances 20000 6845, window [0,26845], optimum 46845".to_string() };
        let d22 = Case { text: "# printing\n2\n0 1\n1 0\n0 200000\n107378 200000\n".to_string(), expect: Expect::Value(107379.0), descr: "D22 instance: 2 nodes, customer window [107378, 200000], optimum 107379".to_string() };
        let d19a = ts_case(vec![vec![0, 3, 1, 2, 2, 3], vec![3, 0, 3, 1, 2, 1], vec![1, 3, 0, 2, 2, 2], vec![2, 1, 2, 0, 2, 1], vec![2, 2, 2, 2, 0, 3], vec![3, 1, 2, 1, 3, 0]], vec![(0, 16), (4, 18), (2, 29), (0, 37), (0, 34), (0, 38)], 9.0);
        let d19b = ts_case(vec![vec![0, 25, 15, 11, 30], vec![37, 0, 22, 40, 30], vec![19, 14, 0, 24, 25], vec![18, 35, 27, 0, 33], vec![39, 27, 30, 35, 0]], vec![(0, 200), (0, 292), (0, 280), (0, 169), (0, 42)], 121.0);
        let count = blocks.iter().map(|b| b.1).sum();
        let bl = blocks.clone();
        let th2 = th;
        ex.push(Example { name: "tsptw", scope: format!("symmetric matrices over {{1,2}} on <= {} nodes (windows earliest {{0,2,4}} x width {{0,2,5}}, horizon {{6,9,14}}); ALL asymmetric matrices over {{1,2}} on 3 nodes; 4 nodes with <= 2 directed entries raised from 1 to 3 (windows width {{4,9}}, horizon {{9,14}}); ALL asymmetric matrices over {{1,3}} on 3 nodes (non metric); no matrix is closed under shortest paths", if th { 4 } else { 3 }), count, file_flag: None, tsptw_output: true, extra: vec![d19a, d19b, d21a, d21b, d22],
            arg_sets: if th { argsets(&w4, tt, "-w", "-t") } else { argsets(&w4, &[Some(1)], "-w", "-t") },
            gen: Box::new(move |mut idx| {
                let _ = th2;
                let mut k = 0;
                while idx >= bl[k].1 { idx -= bl[k].1; k += 1; }
                let (n, mut d, tw): (usize, Vec<Vec<i64>>, Vec<(i64, i64)>) = match bl[k].0 {
                    B::S(n) => {
                        let mut d = vec![vec![0i64; n]; n];
                        for i in 0..n { for j in i + 1..n { let x = digit(&mut idx, 2) as i64 + 1; d[i][j] = x; d[j][i] = x; } }
                        let mut tw: Vec<(i64, i64)> = vec![(0, [6, 9, 14][digit(&mut idx, 3) as usize])];
                        for _ in 1..n { let e = [0, 2, 4][digit(&mut idx, 3) as usize]; let w = [0, 2, 5][digit(&mut idx, 3) as usize]; tw.push((e, e + w)); }
                        (n, d, tw)
                    }
                    B::A(n) => {
                        let mut d = vec![vec![0i64; n]; n];
                        for i in 0..n { for j in 0..n { if i != j { d[i][j] = digit(&mut idx, 2) as i64 + 1; } } }
                        let mut tw: Vec<(i64, i64)> = vec![(0, [6, 9, 14][digit(&mut idx, 3) as usize])];
                        let full = bl[k].1 == 64 * 81 * 3;
                        for _ in 1..n {
                            if full { let e = [0, 2, 4][digit(&mut idx, 3) as usize]; let w = [0, 2, 5][digit(&mut idx, 3) as usize]; tw.push((e, e + w)); }
                            else { let e = [0, 2][digit(&mut idx, 2) as usize]; let w = [0, 5][digit(&mut idx, 2) as usize]; tw.push((e, e + w)); }
                        }
                        (n, d, tw)
                    }
                    B::N => {
                        let n = 3;
                        let mut d = vec![vec![0i64; n]; n];
                        for i in 0..n { for j in 0..n { if i != j { d[i][j] = [1, 3][digit(&mut idx, 2) as usize]; } } }
                        let mut tw: Vec<(i64, i64)> = vec![(0, [6, 9, 14][digit(&mut idx, 3) as usize])];
                        for _ in 1..n { let e = [0, 2][digit(&mut idx, 2) as usize]; let w = [0, 5][digit(&mut idx, 2) as usize]; tw.push((e, e + w)); }
                        (n, d, tw)
                    }
                    B::D => {
                        let n = 4;
                        let mut d = vec![vec![1i64; n]; n];
                        for i in 0..n { d[i][i] = 0; }
                        let pairs: Vec<(usize, usize)> = (0..n).flat_map(|i| (0..n).filter(move |j| *j != i).map(move |j| (i, j))).collect();
                        let m = digit(&mut idx, 79);
                        // m = 0: none; 1..=12: one entry; 13..: the (m-13)-th pair of entries
                        if m >= 1 && m <= 12 { let (i, j) = pairs[m as usize - 1]; d[i][j] = 3; }
                        if m >= 13 { let sub = subset(12, 2, m - 13); for s in sub { let (i, j) = pairs[s]; d[i][j] = 3; } }
                        let mut tw: Vec<(i64, i64)> = vec![(0, [9, 14][digit(&mut idx, 2) as usize])];
                        for _ in 1..n { let w = [4, 9][digit(&mut idx, 2) as usize]; tw.push((0, w)); }
                        (n, d, tw)
                    }
                };
                // NO closure under shortest paths: 326 of the first 400 shipped benchmark files violate the triangle inequality, so
                // non metric matrices are well formed (an earlier version of this generator closed every matrix, which hid D18)
                let _ = &mut d;
                let mut best: Option<i64> = None;
                for p in perms(n - 1) {
                    let mut t = 0; let mut cur = 0; let mut ok = true;
                    for v in p.iter().map(|i| i + 1).chain(std::iter::once(0)) {
                        t += d[cur][v];
                        if t < tw[v].0 { t = tw[v].0; }
                        if t > tw[v].1 { ok = false; break; }
                        cur = v;
                    }
                    if ok && best.map_or(true, |b| t < b) { best = Some(t); }
                }
                let text = format!("# generated\n{}\n{}{}", n, d.iter().map(|r| r.iter().map(|x| x.to_string()).collect::<Vec<_>>().join(" ") + "\n").collect::<String>(), tw.iter().map(|(a, b)| format!("{} {}\n", a, b)).collect::<String>());
                Case { text, expect: match best { Some(b) => Expect::Value(b as f64), None => Expect::Infeasible }, descr: format!("distances {:?} windows {:?}", d, tw) }
            }) });
    }
    // ---------------------------------------------------------------- srflp
    {
        // (departments, length alphabet, flow alphabet).  Merged states only come with >= 4 departments and their cut values only
        // matter when the flow matrix is dense: the 5-department scope over lengths {1,3} and flows {1,2} is what exposes an arc of a
        // merged node which counts one cut too many (seeded change C16zr3)
        // last component: only the length vectors which are non-decreasing (departments relabelled by length; quick tier)
        let mut scopes: Vec<(usize, Vec<i64>, Vec<i64>, bool)> = if th { vec![(2, vec![1, 2], vec![0, 1, 2], false), (3, vec![1, 2], vec![0, 1, 2], false), (4, vec![1, 2], vec![0, 1, 2], false), (5, vec![1, 2], vec![1, 2], false), (5, vec![1, 3], vec![0, 2], true)] }
                                                          else { vec![(2, vec![1, 2], vec![0, 1, 2], false), (3, vec![1, 2], vec![0, 1, 2], false), (5, vec![1, 2], vec![1, 2], true)] };
        // maintenance knob (never set by a registered command): VERIF_SRFLP_SCOPE="<n>;<lengths, comma separated>;<flows, comma separated>"
        if let Ok(sv) = std::env::var("VERIF_SRFLP_SCOPE") { let p: Vec<&str> = sv.split(';').collect(); if p.len() >= 3 { scopes = vec![(p[0].trim().parse().unwrap_or(3), p[1].split(',').filter_map(|x| x.trim().parse().ok()).collect(), p[2].split(',').filter_map(|x| x.trim().parse().ok()).collect(), p.len() > 3)]; } }
        let lvecs = |n: usize, la: &[i64], sorted: bool| -> Vec<Vec<i64>> { let b = la.len(); let mut out = vec![]; let mut cur = vec![0usize; n]; loop { if !sorted || cur.windows(2).all(|w| w[0] <= w[1]) { out.push(cur.iter().map(|i| la[*i]).collect()); } let mut p = 0; loop { if p == n { return out; } cur[p] += 1; if cur[p] < b { break; } cur[p] = 0; p += 1; } } };
        let lens_of: Vec<Vec<Vec<i64>>> = scopes.iter().map(|(n, la, _, so)| lvecs(*n, la, *so)).collect();
        let sizes: Vec<u64> = scopes.iter().zip(lens_of.iter()).map(|((n, _, fa, _), lv)| lv.len() as u64 * (fa.len() as u64).pow((n * (n - 1) / 2) as u32)).collect();
        let count = sizes.iter().sum();
        let sc = scopes.clone();
        ex.push(Example { name: "srflp", scope: format!("(departments, length alphabet, flow alphabet, only non-decreasing length vectors) in {:?}: all combinations (symmetric flows)", scopes), count, file_flag: None, tsptw_output: false, extra: vec![],
            arg_sets: argsets(&w4, tt, "-w", "-t"),
            gen: Box::new(move |mut idx| {
                let mut k = 0;
                while idx >= sizes[k] { idx -= sizes[k]; k += 1; }
                let (n, _, fa, _) = &sc[k];
                let n = *n;
                let lens: Vec<i64> = lens_of[k][digit(&mut idx, lens_of[k].len() as u64) as usize].clone();
                let mut c = vec![vec![0i64; n]; n];
                for a in 0..n { for b in a + 1..n { let f = fa[digit(&mut idx, fa.len() as u64) as usize]; c[a][b] = f; c[b][a] = f; } }
                let mut best: Option<f64> = None;
                for p in perms(n) {
                    let mut pos = vec![0.0; n]; let mut x = 0.0;
                    for dpt in p.iter() { pos[*dpt] = x + lens[*dpt] as f64 / 2.0; x += lens[*dpt] as f64; }
                    let mut cost = 0.0;
                    for a in 0..n { for b in a + 1..n { cost += c[a][b] as f64 * (pos[a] - pos[b] as f64).abs(); } }
                    if best.map_or(true, |b| cost < b) { best = Some(cost); }
                }
                let text = format!("{}\n{}\n{}", n, lens.iter().map(|x| x.to_string()).collect::<Vec<_>>().join(" "), c.iter().map(|r| r.iter().map(|x| x.to_string()).collect::<Vec<_>>().join(" ") + "\n").collect::<String>());
                Case { text, expect: Expect::Value(best.unwrap()), descr: format!("lengths {:?} flows {:?}", lens, c) }
            }) });
    }
    // ---------------------------------------------------------------- talentsched
    {
        // (scenes, actors, minimum number of scenes per actor): with a minimum of 2 only the actors who can ever wait are
        // enumerated (an actor with fewer scenes adds a constant) -- the 3 x 3 "triangles" are what it takes for a merged state to
        // hold an actor who has left in some of the merged states only (seeded change C16xr3)
        let c12 = vec![1i64, 2];
        // D14 (rounding residue in the example's lower bound, see DESIGN section 4): needs contrasted costs (6 and 4 on the same scene)
        // and an alternative order which is worse by exactly one: the thorough tier enumerates the triangles over costs {1,4,6} x
        // durations {1,2,4}; both tiers run the two instances on which an independent random search first met it (`extra`)
        let mut scopes: Vec<(usize, usize, usize, Vec<i64>, Vec<i64>)> = if th {
            vec![(2, 1, 0, c12.clone(), c12.clone()), (2, 2, 0, c12.clone(), c12.clone()), (3, 1, 0, c12.clone(), c12.clone()), (3, 2, 0, c12.clone(), c12.clone()), (4, 1, 0, c12.clone(), c12.clone()), (4, 2, 0, c12.clone(), c12.clone()),
                 (3, 3, 0, c12.clone(), c12.clone()), (4, 3, 2, c12.clone(), c12.clone()), (3, 3, 2, vec![1, 4, 6], vec![1, 2, 4])]
        } else { vec![(2, 1, 0, c12.clone(), c12.clone()), (2, 2, 0, c12.clone(), c12.clone()), (3, 1, 0, c12.clone(), c12.clone()), (3, 2, 0, c12.clone(), c12.clone()), (3, 3, 2, c12.clone(), c12.clone())] };
        // maintenance knob (never set by a registered command): other scopes over {1,2}, e.g. VERIF_TS_SCOPES="5,2,0;4,3,0"
        if let Ok(sv) = std::env::var("VERIF_TS_SCOPES") { scopes = sv.split(';').filter_map(|x| { let mut it = x.split(','); Some((it.next()?.trim().parse().ok()?, it.next()?.trim().parse().ok()?, it.next().and_then(|m| m.trim().parse().ok()).unwrap_or(0), c12.clone(), c12.clone())) }).collect(); }
        let rows_of = |ns: usize, min: usize| -> Vec<u64> { (0..(1u64 << ns)).filter(|r| r.count_ones() as usize >= min).collect() };
        let info: Vec<(usize, usize, Vec<u64>, Vec<i64>, Vec<i64>)> = scopes.iter().map(|(s, a, m, ca, da)| (*s, *a, rows_of(*s, *m), ca.clone(), da.clone())).collect();
        let sizes: Vec<u64> = info.iter().map(|(s, a, rows, ca, da)| (rows.len() as u64).pow(*a as u32) * (ca.len() as u64).pow(*a as u32) * (da.len() as u64).pow(*s as u32)).collect();
        let count = sizes.iter().sum();
        let ts_case = |name: &str, pres: &[Vec<u64>], costs: &[i64], durs: &[i64], expect: f64| -> Case {
            let mut text = format!("{}\n{} {}\n", name, durs.len(), costs.len());
            for a in 0..costs.len() { text.push_str(&format!("{} {}\n", pres[a].iter().map(|x| x.to_string()).collect::<Vec<_>>().join(" "), costs[a])); }
            text.push_str(&format!("{}\n", durs.iter().map(|x| x.to_string()).collect::<Vec<_>>().join(" ")));
            Case { text, expect: Expect::Value(expect), descr: format!("presence {:?} costs {:?} durations {:?}", pres, costs, durs) }
        };
        let d14a = ts_case("d14a", &[vec![0, 1, 1], vec![1, 1, 1], vec![1, 1, 0]], &[1, 6, 4], &[1, 2, 4], 60.0);
        let d14b = ts_case("d14b", &[vec![1, 0, 1, 1], vec![0, 1, 1, 1], vec![1, 1, 1, 1]], &[1, 8, 7], &[2, 1, 2, 4], 127.0);
        ex.push(Example { name: "talentsched", scope: format!("(scenes, actors, min scenes per actor, cost alphabet, duration alphabet) in {:?}: all presence matrices x costs x durations; plus 2 hand-written instances (D14)", scopes), count, file_flag: None, tsptw_output: false, extra: vec![d14a, d14b],
            arg_sets: argsets(&w4, tt, "-w", "-t"),
            gen: Box::new(move |mut idx| {
                let mut k = 0;
                while idx >= sizes[k] { idx -= sizes[k]; k += 1; }
                let (ns, na, rows, ca, da) = &info[k];
                let (ns, na) = (*ns, *na);
                let pres: Vec<Vec<u64>> = (0..na).map(|_| { let r = rows[digit(&mut idx, rows.len() as u64) as usize]; (0..ns).map(|i| (r >> i) & 1).collect() }).collect();
                let costs: Vec<i64> = (0..na).map(|_| ca[digit(&mut idx, ca.len() as u64) as usize]).collect();
                let durs: Vec<i64> = (0..ns).map(|_| da[digit(&mut idx, da.len() as u64) as usize]).collect();
                let mut best: Option<i64> = None;
                for p in perms(ns) {
                    let mut tot = 0;
                    for a in 0..na {
                        let on: Vec<usize> = (0..ns).filter(|i| pres[a][p[*i]] == 1).collect();
                        if let (Some(lo), Some(hi)) = (on.first(), on.last()) { tot += costs[a] * (*lo..=*hi).map(|i| durs[p[i]]).sum::<i64>(); }
                    }
                    if best.map_or(true, |b| tot < b) { best = Some(tot); }
                }
                let mut text = format!("generated\n{} {}\n", ns, na);
                for a in 0..na { text.push_str(&format!("{} {}\n", pres[a].iter().map(|x| x.to_string()).collect::<Vec<_>>().join(" "), costs[a])); }
                text.push_str(&format!("{}\n", durs.iter().map(|x| x.to_string()).collect::<Vec<_>>().join(" ")));
                Case { text, expect: Expect::Value(best.unwrap() as f64), descr: format!("presence {:?} costs {:?} durations {:?}", pres, costs, durs) }
            }) });
    }
    // ---------------------------------------------------------------- psp
    {
        // T periods, ni items, demand[i][t] in {0,1} (not all zero), change-over cost matrix off-diagonal in {0,1,2}, stocking in {0,1}
        let scopes: Vec<(usize, usize)> = if th { vec![(2, 1), (3, 1), (2, 2), (3, 2), (4, 2)] } else { vec![(2, 1), (3, 1), (2, 2), (3, 2)] };
        let mut sizes: Vec<u64> = scopes.iter().map(|(t, ni)| (1u64 << (t * ni)) * 3u64.pow((ni * (ni - 1)) as u32) * (1u64 << ni)).collect();
        // thorough: the smallest shape on which D17 shows: 6 periods, 3 items with ONE demand each (every deadline), change-over costs in
        // {0,1} (non triangular matrices included), no stocking cost
        if th { sizes.push(216 * 64); }
        let count = sizes.iter().sum();
        let sc = scopes.clone();
        // D17 (known finding, see DESIGN section 4): PspRelax::merge keeps the component-wise minimum of the pending demands, i.e. drops
        // demands; a dropped item can no longer be produced below the merged node, although producing it can make the change-overs
        // CHEAPER when the change-over costs violate the triangle inequality (685 of the 1 715 shipped instances do).  Two instances met
        // by an independent random search: 6 periods / 3 items (wrong with -w 1) and 7 periods / 4 items (wrong with the default width)
        let d17a = Case { text: "6\n3\n3\n\n0 0 1\n0 0 0\n1 1 0\n\n0 0 0\n\n0 0 1 0 0 0\n0 0 0 0 1 0\n0 0 0 1 0 0\n\n0\n".to_string(), expect: Expect::Value(0.0), descr: "D17 instance: 6 periods, 3 items, change-over [[0,0,1],[0,0,0],[1,1,0]], optimum 0".to_string() };
        let d17b = Case { text: "7\n4\n6\n\n0 0 0 1\n55 0 1 55\n0 1 0 0\n52 52 0 0\n\n0 0 0 3\n\n0 0 0 0 0 1 1\n0 0 0 1 0 0 1\n1 0 0 0 0 0 0\n0 0 0 0 0 0 1\n\n55\n".to_string(), expect: Expect::Value(55.0), descr: "D17 instance: 7 periods, 4 items, optimum 55".to_string() };
        ex.push(Example { name: "psp", scope: format!("(periods, items) in {:?}: all 0/1 demand matrices, change-over costs in {{0,1,2}}, stocking costs in {{0,1}}{}; 2 hand-written instances (D17)", scopes, if th { "; 6 periods x 3 items with one demand each, change-over costs in {0,1}, no stocking cost" } else { "" }), count, file_flag: None, tsptw_output: false, extra: vec![d17a, d17b],
            arg_sets: argsets(&w4, &[None], "-w", "-t"),
            gen: Box::new(move |mut idx| {
                let mut k = 0;
                while idx >= sizes[k] { idx -= sizes[k]; k += 1; }
                let (t, ni) = if k < sc.len() { sc[k] } else { (6, 3) };
                let (dem, co, st): (Vec<Vec<u64>>, Vec<Vec<i64>>, Vec<i64>) = if k < sc.len() {
                    let dem: Vec<Vec<u64>> = (0..ni).map(|_| (0..t).map(|_| digit(&mut idx, 2)).collect()).collect();
                    let mut co = vec![vec![0i64; ni]; ni];
                    for a in 0..ni { for b in 0..ni { if a != b { co[a][b] = digit(&mut idx, 3) as i64; } } }
                    let st: Vec<i64> = (0..ni).map(|_| digit(&mut idx, 2) as i64).collect();
                    (dem, co, st)
                } else {
                    let dem: Vec<Vec<u64>> = (0..ni).map(|_| { let dl = digit(&mut idx, t as u64) as usize; (0..t).map(|p| if p == dl { 1 } else { 0 }).collect() }).collect();
                    let mut co = vec![vec![0i64; ni]; ni];
                    for a in 0..ni { for b in 0..ni { if a != b { co[a][b] = digit(&mut idx, 2) as i64; } } }
                    (dem, co, vec![0; ni])
                };
                let total: u64 = dem.iter().map(|r| r.iter().sum::<u64>()).sum();
                // brute force: every period produces one item or nothing
                let mut best: Option<i64> = None;
                let opts = ni as u64 + 1;
                for code in 0..opts.pow(t as u32) {
                    let mut c = code;
                    let seq: Vec<i64> = (0..t).map(|_| digit(&mut c, opts) as i64 - 1).collect();
                    let mut cost = 0; let mut ok = true;
                    for i in 0..ni {
                        let prods: Vec<usize> = (0..t).filter(|p| seq[*p] == i as i64).collect();
                        let dls: Vec<usize> = (0..t).filter(|p| dem[i][*p] == 1).collect();
                        if prods.len() != dls.len() { ok = false; break; }
                        for (p, dl) in prods.iter().zip(dls.iter()) { if p > dl { ok = false; } else { cost += st[i] * (*dl - *p) as i64; } }
                    }
                    if !ok { continue; }
                    let prod: Vec<i64> = seq.iter().copied().filter(|x| *x >= 0).collect();
                    for w in prod.windows(2) { cost += co[w[0] as usize][w[1] as usize]; }
                    if best.map_or(true, |b| cost < b) { best = Some(cost); }
                }
                let text = format!("{}\n{}\n{}\n\n{}\n{}\n\n{}\n0\n", t, ni, total,
                    co.iter().map(|r| r.iter().map(|x| x.to_string()).collect::<Vec<_>>().join(" ") + "\n").collect::<String>(),
                    st.iter().map(|x| x.to_string()).collect::<Vec<_>>().join(" "),
                    dem.iter().map(|r| r.iter().map(|x| x.to_string()).collect::<Vec<_>>().join(" ") + "\n").collect::<String>());
                Case { text, expect: match best { Some(b) => Expect::Value(b as f64), None => Expect::Infeasible }, descr: format!("demands {:?} change-over {:?} stocking {:?}", dem, co, st) }
            }) });
    }
    // ---------------------------------------------------------------- alp
    {
        // na aircraft, ncl classes, nr runways; targets sorted from an alphabet; latest = target + offset (kept ordered inside a class); separations in {1,2}
        // (every 2x2 .. matrix over {1,2} satisfies the triangle inequality).  The (3,2,2) scope is what it takes for a runway which was
        // freed LATER to be the only one which can still take an aircraft (two runways freed at the same time by aircraft of different
        // classes, class dependent separations) -- seeded change C16b; the quick tier runs it over the reduced alphabets {1,2} / {0,1}.
        let full_t = vec![1i64, 2, 4]; let full_o = vec![0i64, 1, 3];
        let s12 = vec![1i64, 2];
        // last component: separation alphabet.  Over {1,4} the matrices are ASYMMETRIC with contrast (the shipped files are all
        // symmetric): with four aircraft on one runway and wide windows a merged runway state uses the least separation TOWARDS a
        // class -- row and column minima differ (seeded change C16sr4; thorough tier only: 6.1e4 instances).  A matrix which violates the triangle inequality is closed
        // under shortest paths (the model only separates consecutive aircraft: every shipped file satisfies it).
        let scopes: Vec<(usize, usize, usize, Vec<i64>, Vec<i64>, Vec<i64>)> = if th {
            vec![(1, 1, 1, full_t.clone(), full_o.clone(), s12.clone()), (2, 1, 1, full_t.clone(), full_o.clone(), s12.clone()), (2, 2, 1, full_t.clone(), full_o.clone(), s12.clone()), (2, 2, 2, full_t.clone(), full_o.clone(), s12.clone()), (3, 1, 1, full_t.clone(), full_o.clone(), s12.clone()), (3, 1, 2, full_t.clone(), full_o.clone(), s12.clone()), (3, 2, 1, full_t.clone(), full_o.clone(), s12.clone()), (3, 2, 2, full_t.clone(), full_o.clone(), s12.clone()), (4, 2, 2, vec![1, 2], vec![0, 1], s12.clone()),
                 (4, 2, 1, vec![1, 2, 4], vec![3, 9], vec![1, 4])]
        } else {
            vec![(1, 1, 1, full_t.clone(), full_o.clone(), s12.clone()), (2, 1, 1, full_t.clone(), full_o.clone(), s12.clone()), (2, 2, 2, full_t.clone(), full_o.clone(), s12.clone()), (3, 1, 2, full_t.clone(), full_o.clone(), s12.clone()), (3, 2, 2, vec![1, 2], vec![0, 1], s12.clone())]
        };
        let msets = |na: usize, g: &[i64]| -> Vec<Vec<i64>> { let b = g.len(); let mut out = vec![]; let mut cur = vec![0usize; na]; loop { if cur.windows(2).all(|w| w[0] <= w[1]) { out.push(cur.iter().map(|i| g[*i]).collect()); } let mut p = 0; loop { if p == na { return out; } cur[p] += 1; if cur[p] < b { break; } cur[p] = 0; p += 1; } } };
        let info: Vec<(usize, usize, usize, Vec<Vec<i64>>, Vec<i64>, Vec<i64>)> = scopes.iter().map(|(a, c, r, g, o, sa)| (*a, *c, *r, msets(*a, g), o.clone(), sa.clone())).collect();
        let sizes: Vec<u64> = info.iter().map(|(na, ncl, _, ms, o, sa)| (*ncl as u64).pow(*na as u32) * ms.len() as u64 * (o.len() as u64).pow(*na as u32) * (sa.len() as u64).pow((ncl * ncl) as u32)).collect();
        let count = sizes.iter().sum();
        ex.push(Example { name: "alp", scope: format!("(aircraft, classes, runways, target alphabet, latest-offset alphabet, separation alphabet) in {:?}: all class assignments, sorted targets, latest = target + offset (ordered inside a class), all separation matrices (closed under the triangle inequality)", scopes), count, file_flag: None, tsptw_output: false, extra: vec![],
            arg_sets: argsets(&w4, tt, "-w", "-t"),
            gen: Box::new(move |mut idx| {
                let mut k = 0;
                while idx >= sizes[k] { idx -= sizes[k]; k += 1; }
                let (na, ncl, nr, ms, offs, sa) = &info[k];
                let (na, ncl, nr) = (*na, *ncl, *nr);
                let classes: Vec<usize> = (0..na).map(|_| digit(&mut idx, ncl as u64) as usize).collect();
                let targets = ms[digit(&mut idx, ms.len() as u64) as usize].clone();
                let mut latest: Vec<i64> = (0..na).map(|a| targets[a] + offs[digit(&mut idx, offs.len() as u64) as usize]).collect();
                // keep the latest times ordered like the targets inside each class (the model lands a class in index order)
                for c in 0..ncl { let ids: Vec<usize> = (0..na).filter(|a| classes[*a] == c).collect(); for w in 1..ids.len() { if latest[ids[w]] < latest[ids[w - 1]] { latest[ids[w]] = latest[ids[w - 1]]; } } }
                let mut sep: Vec<Vec<i64>> = (0..ncl).map(|_| (0..ncl).map(|_| sa[digit(&mut idx, sa.len() as u64) as usize]).collect()).collect();
                for kk in 0..ncl { for a in 0..ncl { for b in 0..ncl { if sep[a][kk] + sep[kk][b] < sep[a][b] { sep[a][b] = sep[a][kk] + sep[kk][b]; } } } }
                let mut best: Option<i64> = None;
                for p in perms(na) {
                    let fifo = (0..ncl).all(|c| { let ids: Vec<usize> = p.iter().copied().filter(|a| classes[*a] == c).collect(); ids.windows(2).all(|w| w[0] < w[1]) });
                    if !fifo { continue; }
                    for code in 0..(nr as u64).pow(na as u32) {
                        let mut c = code;
                        let rw: Vec<usize> = (0..na).map(|_| digit(&mut c, nr as u64) as usize).collect();
                        let mut last: BTreeMap<usize, (i64, usize)> = BTreeMap::new();
                        let mut cost = 0; let mut feas = true;
                        for a in p.iter() {
                            let t = match last.get(&rw[*a]) { Some((pt, pc)) => targets[*a].max(pt + sep[*pc][classes[*a]]), None => targets[*a] };
                            if t > latest[*a] { feas = false; break; }
                            cost += t - targets[*a];
                            last.insert(rw[*a], (t, classes[*a]));
                        }
                        if feas && best.map_or(true, |b| cost < b) { best = Some(cost); }
                    }
                }
                let text = format!("{} {} {}\n{}{}", na, ncl, nr, (0..na).map(|a| format!("{} {} {}\n", targets[a], latest[a], classes[a])).collect::<String>(), sep.iter().map(|r| r.iter().map(|x| x.to_string()).collect::<Vec<_>>().join(" ") + "\n").collect::<String>());
                Case { text, expect: match best { Some(b) => Expect::Value(b as f64), None => Expect::Infeasible }, descr: format!("classes {:?} targets {:?} latest {:?} separations {:?} runways {}", classes, targets, latest, sep, nr) }
            }) });
    }
    ex
}

pub enum Verdict { Ok, Bad(String, String) }

/// what the watchdog knows about a running example binary
struct Watched { start: Instant, confirm: bool, killed: Option<String>, last_cpu: u64, last_change: Instant }
static WATCH: std::sync::Mutex<BTreeMap<u32, Watched>> = std::sync::Mutex::new(BTreeMap::new());
extern "C" { fn kill(pid: i32, sig: i32) -> i32; }
/// CPU time (user + system, all threads, in clock ticks of 10 ms) consumed so far by a process
fn cpu_ticks(pid: u32) -> Option<u64> {
    let txt = std::fs::read_to_string(format!("/proc/{}/stat", pid)).ok()?;
    let rest = &txt[txt.rfind(')')? + 1..];
    let f: Vec<&str> = rest.split_whitespace().collect();
    Some(f.get(11)?.parse::<u64>().ok()? + f.get(12)?.parse::<u64>().ok()?)
}
const FIRST_WALL_S: u64 = 20;
const CONFIRM_IDLE_S: u64 = 30;
const CONFIRM_CPU_S: u64 = 150;
const CONFIRM_WALL_S: u64 = 1200;
/// First attempt of a run: killed after 20 s of wall clock.  That alone proves nothing on a loaded machine (a legitimate run
/// of `golomb 9 -w 1` needs 10 s of CPU time; with four runnable processes per core it did not finish within 90 s of wall
/// clock: false alarm F8), so the confirmation run is judged on what the process DOES, not on how long the machine takes:
/// it is a hang when it consumes no CPU time during 30 s (dead-lock, lost wake-up: every thread is parked), and a
/// non-termination when it has consumed 150 s of CPU time (15 times the longest legitimate run of the scopes) without a result.
fn start_watchdog() {
    std::thread::spawn(|| loop {
        std::thread::sleep(Duration::from_millis(500));
        let mut w = WATCH.lock().unwrap();
        let now = Instant::now();
        for (pid, e) in w.iter_mut() {
            if e.killed.is_some() { continue; }
            let verdict = if !e.confirm {
                if now.duration_since(e.start).as_secs() >= FIRST_WALL_S { Some(format!("no result within {} s", FIRST_WALL_S)) } else { None }
            } else {
                let cpu = cpu_ticks(*pid).unwrap_or(e.last_cpu);
                if cpu > e.last_cpu + 1 { e.last_cpu = cpu; e.last_change = now; }
                if now.duration_since(e.last_change).as_secs() >= CONFIRM_IDLE_S { Some(format!("no result and no CPU time consumed during {} s (every thread is blocked); confirmation run, {} s of CPU time used in all", CONFIRM_IDLE_S, cpu / 100)) }
                else if cpu >= CONFIRM_CPU_S * 100 { Some(format!("no result after {} s of CPU time (confirmation run)", CONFIRM_CPU_S)) }
                else if now.duration_since(e.start).as_secs() >= CONFIRM_WALL_S { Some("MACHINE-TOO-SLOW".to_string()) }
                else { None }
            };
            if let Some(v) = verdict { e.killed = Some(v); unsafe { kill(*pid as i32, 9); } }
        }
    });
}

/// runs the binary on a case file with an argument set; a time-out of the first attempt is not believed (loaded machine):
/// the run is repeated once under the CPU-time based watchdog and only a second failure is a hang
fn run_case(bin: &str, ex: &Example, file: &str, case: &Case, args: &[String]) -> Verdict {
    match run_case_once(bin, ex, file, case, args, false) {
        Verdict::Bad(sig, _) if sig.ends_with(":hang") => run_case_once(bin, ex, file, case, args, true),
        v => v,
    }
}
fn run_case_once(bin: &str, ex: &Example, file: &str, case: &Case, args: &[String], confirm: bool) -> Verdict {
    let mut cmd = Command::new(bin);
    match ex.file_flag { Some("GOLOMB") => { cmd.arg(case.text.trim()); } Some(f) => { cmd.arg(f).arg(file); } None => { cmd.arg(file); } }
    cmd.args(args).stdout(Stdio::piped()).stderr(Stdio::piped()).stdin(Stdio::null()).env("RUST_BACKTRACE", "0");
    let child = match cmd.spawn() { Ok(c) => c, Err(e) => return Verdict::Bad("machinery".to_string(), format!("cannot spawn {}: {}", bin, e)) };
    // blocking wait; a watchdog thread kills the children which are older than 20 s
    let pid = child.id();
    WATCH.lock().unwrap().insert(pid, Watched { start: Instant::now(), confirm, killed: None, last_cpu: 0, last_change: Instant::now() });
    let out = child.wait_with_output();
    let killed = WATCH.lock().unwrap().remove(&pid).and_then(|e| e.killed);
    if let Some(why) = killed {
        if why == "MACHINE-TOO-SLOW" { return Verdict::Bad("machinery".to_string(), format!("{} {:?}: the confirmation run got less than {} s of CPU time in {} s of wall clock: the machine is too loaded to decide", ex.name, args, CONFIRM_CPU_S, CONFIRM_WALL_S)); }
        return Verdict::Bad(format!("example:{}:hang", ex.name), why);
    }
    let out = match out { Ok(o) => o, Err(e) => return Verdict::Bad("machinery".to_string(), format!("wait failed: {}", e)) };
    let stdout = String::from_utf8_lossy(&out.stdout).to_string();
    if !out.status.success() {
        let err = String::from_utf8_lossy(&out.stderr).to_string();
        let kind = if err.contains("overflow") { "arithmetic-overflow" } else if err.contains("panicked") { "panic" } else { "exit-status" };
        let infeas = if matches!(case.expect, Expect::Infeasible) { ":infeasible-instance" } else { "" };
        return Verdict::Bad(format!("example:{}:crash:{}{}", ex.name, kind, infeas), format!("exit status {:?}: {}", out.status.code(), err.lines().filter(|l| l.contains("panicked") || l.contains("overflow") || l.contains("rror")).take(3).collect::<Vec<_>>().join(" | ")));
    }
    let field = |key: &str| -> Option<String> { stdout.lines().find(|l| l.trim_start().starts_with(key)).map(|l| l.trim_start()[key.len()..].trim().trim_start_matches(':').trim().to_string()) };
    if ex.tsptw_output {
        let status = field("status").unwrap_or_default();
        let lb = field("lower bnd").unwrap_or_default();
        let sol = field("solution").unwrap_or_default();
        if status != "Proved" { return Verdict::Bad(format!("example:{}:not-proved", ex.name), format!("status {:?}", status)); }
        return match &case.expect {
            Expect::Infeasible => if sol.contains("No feasible") { Verdict::Ok } else { Verdict::Bad(format!("example:{}:value-for-infeasible", ex.name), format!("instance is infeasible but the program prints solution {:?} (lower bnd {})", sol, lb)) },
            Expect::Value(v) => match lb.parse::<f64>() { Ok(g) if (g - v).abs() < 1e-6 && !sol.contains("No feasible") => Verdict::Ok, _ => Verdict::Bad(format!("example:{}:wrong-objective", ex.name), format!("prints lower bnd {} / solution {:?} but the optimum is {}", lb, sol, v)) },
        };
    }
    let obj = field("Objective");
    let aborted = field("Aborted");
    match (obj, aborted) {
        (Some(o), Some(a)) => {
            if a != "false" { return Verdict::Bad(format!("example:{}:aborted", ex.name), format!("Aborted: {} without any cut-off", a)); }
            let got: f64 = match o.parse() { Ok(g) => g, Err(_) => return Verdict::Bad(format!("example:{}:unparsable", ex.name), format!("Objective: {:?}", o)) };
            let want = match &case.expect { Expect::Value(v) => *v, Expect::Infeasible => -1.0 };
            if (got - want).abs() < 1e-6 { Verdict::Ok } else { Verdict::Bad(format!("example:{}:wrong-objective", ex.name), format!("prints Objective {} but exhaustive enumeration gives {}", got, want)) }
        }
        _ => Verdict::Bad(format!("example:{}:unparsable", ex.name), format!("no Objective/Aborted line in {:?}", stdout.chars().take(200).collect::<String>())),
    }
}

#[derive(Default)]
struct Local { runs: u64, cases: u64, infeasible: u64, distinct_objectives: std::collections::BTreeSet<i64>, samples: Vec<Value> }

pub fn build_examples(rep: &Reporter) -> Option<String> {
    let build_root = std::env::var("VERIF_BUILD").unwrap_or_else(|_| format!("{}/.build", verif_dir()));
    let repo = std::env::var("VERIF_REPO").unwrap_or_else(|_| "/repo".to_string());
    let target = format!("{}/examples", build_root);
    let out = Command::new("cargo").args(["build", "--examples", "-p", "ddo", "--offline"]).current_dir(&repo).env("CARGO_TARGET_DIR", &target).env("CARGO_PROFILE_DEV_OPT_LEVEL", "1").env("CARGO_NET_OFFLINE", "true").output();
    match out {
        Ok(o) if o.status.success() => Some(format!("{}/debug/examples", target)),
        Ok(o) => { rep.engine_error(format!("the examples do not build: {}", String::from_utf8_lossy(&o.stderr).lines().rev().take(10).collect::<Vec<_>>().join(" | "))); None }
        Err(e) => { rep.engine_error(format!("cannot run cargo: {}", e)); None }
    }
}

pub fn check(tier: &str) -> i32 {
    let rep = Reporter::new("C16", tier);
    let th = rep.thorough();
    let only: Option<String> = std::env::var("VERIF_EXAMPLE").ok();
    let bindir = match build_examples(&rep) { Some(b) => b, None => return rep.finish("exploration", json!({"evaluations": 0, "distinct_nontrivial": 0, "rule": "build failed", "samples": []}), vec![]) };
    let scratch = format!("{}/ex-scratch/{}", std::env::var("VERIF_BUILD").unwrap_or_else(|_| format!("{}/.build", verif_dir())), std::process::id());
    let _ = std::fs::create_dir_all(&scratch);
    let mut exs = examples(th);
    // the cheapest examples first: what they leave of their share of the budget goes to the larger ones
    exs.sort_by_key(|e| (e.count + e.extra.len() as u64) * e.arg_sets.len() as u64);
    start_watchdog();
    let total_budget = if th { 2400.0 } else { 56.0 };
    let t0 = Instant::now();
    let selected: Vec<&Example> = exs.iter().filter(|e| only.as_ref().map_or(true, |o| o == e.name.split('@').next().unwrap())).collect();
    // blocks of a few long single-threaded runs (golomb with 9 marks at width 1, the long lcs pairs) run beside the others, in
    // a thread of their own: they occupy one core each and used to eat a third of the tier's budget while 15 cores were idle
    let (few, main): (Vec<&Example>, Vec<&Example>) = selected.iter().partition(|e| (e.count + e.extra.len() as u64) * e.arg_sets.len() as u64 <= 48);
    let run_example = |ex: &Example, deadline: Instant| -> (Value, u64, u64, bool, Vec<Value>) {
        let bin = format!("{}/{}", bindir, ex.name.split('@').next().unwrap());
        let te = Instant::now();
        let res = par_run::<Local, _>(ex.count + ex.extra.len() as u64, 8, Some(deadline), rep.seed, |i, l| {
            let case = if i < ex.count { (ex.gen)(i) } else { ex.extra[(i - ex.count) as usize].clone() };
            let tid = format!("{:?}", std::thread::current().id()).replace(|c: char| !c.is_ascii_digit(), "");
            let dir = format!("{}/{}/t{}", scratch, ex.name, tid);
            let _ = std::fs::create_dir_all(&dir);
            let file = format!("{}/inst_{}.txt", dir, ex.name);
            if ex.file_flag != Some("GOLOMB") { let _ = std::fs::write(&file, &case.text); }
            l.cases += 1;
            match &case.expect { Expect::Infeasible => l.infeasible += 1, Expect::Value(v) => { l.distinct_objectives.insert((*v * 2.0) as i64); } }
            for args in ex.arg_sets.iter() {
                l.runs += 1;
                match run_case(&bin, ex, &file, &case, args) {
                    Verdict::Ok => (),
                    Verdict::Bad(sig, what) => {
                        if sig == "machinery" { rep.engine_error(what); } else {
                            rep.violation(sig, format!("{} {:?} on instance [{}]: {}", ex.name, args, case.descr, what), json!({"engine": "examples", "example": ex.name, "args": args, "instance_index": i, "instance_file": case.text, "expected": format!("{:?}", case.expect), "description": case.descr}));
                        }
                    }
                }
            }
            if l.samples.len() < 1 && i % 7 == 3 { l.samples.push(json!({"example": ex.name, "file": case.text, "expected": format!("{:?}", case.expect), "arg_sets": ex.arg_sets})); }
        });
        let mut l = Local::default();
        for x in res.locals { l.runs += x.runs; l.cases += x.cases; l.infeasible += x.infeasible; l.distinct_objectives.extend(x.distinct_objectives); if l.samples.is_empty() { l.samples.extend(x.samples); } }
        let complete = res.done == ex.count + ex.extra.len() as u64;
        (json!({"example": ex.name, "scope": ex.scope, "instances_in_scope": ex.count, "extra_hand_written_instances": ex.extra.len(), "instances_done": res.done, "complete": complete, "runs": l.runs, "argument_sets": ex.arg_sets.len(),
            "infeasible_instances": l.infeasible, "distinct_optimal_values": l.distinct_objectives.len(), "wall_s": te.elapsed().as_secs_f64()}), l.runs, l.cases, complete, l.samples)
    };
    let mut results: Vec<(Value, u64, u64, bool, Vec<Value>)> = vec![];
    std::thread::scope(|s| {
        let run_example = &run_example;
        let few = &few;
        let hs: Vec<_> = few.iter().map(|ex| s.spawn(move || run_example(ex, t0 + Duration::from_secs_f64(total_budget)))).collect();
        let n_ex = main.len().max(1);
        for (ei, ex) in main.iter().enumerate() {
            // every example gets an equal share of what is left of the budget
            let left = total_budget - t0.elapsed().as_secs_f64();
            let share = (left / (n_ex - ei) as f64).max(1.0);
            results.push(run_example(ex, Instant::now() + Duration::from_secs_f64(share)));
        }
        for h in hs { results.push(h.join().expect("thread of the long single runs panicked")); }
    });
    let mut per_example = vec![];
    let (mut runs, mut cases, mut complete) = (0u64, 0u64, true);
    let mut samples = vec![];
    for (v, r, c, ok, smp) in results { per_example.push(v); runs += r; cases += c; if !ok { complete = false; } if samples.len() < 12 { samples.extend(smp.into_iter().take(1)); } }
    let _ = std::fs::remove_dir_all(&scratch);
    let cov = json!({
        "evaluations": runs, "distinct_nontrivial": cases,
        "rule": "per example: every instance file of the stated tiny scope (bounded exhaustive, decoded from an index) x every listed argument set (widths / threads) is run through the real example binary built from /repo (dev profile, overflow checks on); oracle = brute force over the combinatorial object written from the problem statement; a run is a violation when the binary exits non-zero, gives no result within 20 s and, run again, consumes no CPU time during 30 s (hang) or 150 s of CPU time without a result (non-termination), prints Aborted: true, or prints an objective different from the oracle; distinct_nontrivial = distinct instance files run (each instance is enumerated once)",
        "samples": samples, "exhaustive": complete, "examples": per_example,
        "caps_hit": if complete { json!([]) } else { json!(["wall clock share of the tier: see examples[*].instances_done (the order of blocks rotates with VERIF_SEED)"]) },
    });
    rep.finish("exploration", cov, vec![
        "worker schedules inside the example binaries are the operating system's (schedules are the subject of C03/C04)".to_string(),
        "only undeniably well-formed files are generated (positive weights, distinct clauses, metric distance matrices for tsptw, per-class ordered latest times for alp)".to_string(),
    ])
}
