//! E7: exhaustive grids through the real default method Solver::gap() (C17) and the width combinators (C13).
use crate::report::*;
use ddo::*;
use serde_json::{json, Value};
use std::sync::Arc;

struct Stub { lb: isize, ub: isize }
impl Solver for Stub {
    fn maximize(&mut self) -> Completion { Completion { is_exact: false, best_value: None } }
    fn best_value(&self) -> Option<isize> { None }
    fn best_solution(&self) -> Option<Solution> { None }
    fn best_lower_bound(&self) -> isize { self.lb }
    fn best_upper_bound(&self) -> isize { self.ub }
    fn set_primal(&mut self, _: isize, _: Solution) {}
    fn explored(&self) -> usize { 0 }
}

fn cls(x: isize) -> &'static str { if x == isize::MIN { "min" } else if x == isize::MAX { "max" } else if x < 0 { "neg" } else if x == 0 { "zero" } else { "pos" } }

pub fn grid(thorough: bool) -> Vec<isize> {
    let mut g: Vec<isize> = vec![isize::MIN, isize::MIN + 1, -(1 << 62), -1_000_000_000, -7, -2, -1, 0, 1, 2, 7, 1_000_000_000, 1 << 62, isize::MAX - 1, isize::MAX,
                                 (1 << 24) + 1, -((1 << 24) + 1), (1 << 53) + 1, -((1 << 53) + 1)];
    // close pairs at large magnitudes (neighbours of every large grid value): rounding to f32/f64 must not make distinct bounds equal
    for v in g.clone() { if v.unsigned_abs() > 1000 && v > isize::MIN + 4 && v < isize::MAX - 4 { g.push(v + 1); g.push(v - 1); g.push(v + 2); } }
    if thorough {
        for k in 0..63 { g.push(1 << k); g.push(-(1 << k)); g.push((1 << k) + 1); g.push(-(1 << k) - 1); g.push((1 << k) - 1); }
        for x in -40..=40 { g.push(x); }
    } else {
        for x in -5..=5 { g.push(x); }
    }
    g.sort();
    g.dedup();
    g
}

pub fn check(tier: &str) -> i32 {
    let rep = Reporter::new("C17", tier);
    let g = grid(rep.thorough());
    let mut pairs = 0u64;
    let mut nontrivial = 0u64;
    let mut outcomes: std::collections::BTreeMap<String, u64> = Default::default();
    let mut samples = vec![];
    for lb in g.iter().copied() {
        for ub in g.iter().copied() {
            if lb > ub { continue; }
            pairs += 1;
            let s = Stub { lb, ub };
            let r = std::panic::catch_unwind(|| s.gap());
            let replay = json!({"engine": "gap", "lb": lb, "ub": ub});
            let gp = match r { Err(_) => { rep.violation(format!("gap:panic:lb={}:ub={}", cls(lb), cls(ub)), format!("gap() panicked for lb={} ub={}: {}", lb, ub, crate::run::take_panic_msg()), replay); continue; } Ok(x) => x };
            let finite = lb != isize::MIN && ub != isize::MAX;
            if finite && lb != ub { nontrivial += 1; }
            *outcomes.entry(if gp.is_nan() { "nan".to_string() } else if gp == 0.0 { "0".to_string() } else if gp == 1.0 { "1".to_string() } else if gp < 0.0 { "<0".to_string() } else if gp < 1.0 { "(0,1)".to_string() } else { ">1".to_string() }).or_insert(0) += 1;
            if samples.len() < 6 && finite && lb != ub && (lb < 0) != (ub < 0) { samples.push(json!({"lb": lb, "ub": ub, "gap": format!("{}", gp)})); }
            let mut bad = |sig: String, what: String| rep.violation(sig, what, replay.clone());
            if gp.is_nan() { bad(format!("gap:nan:lb={}:ub={}", cls(lb), cls(ub)), format!("gap() is NaN for lb={} ub={}", lb, ub)); continue; }
            if gp < 0.0 { bad(format!("gap:negative:lb={}:ub={}", cls(lb), cls(ub)), format!("gap() = {} < 0 for lb={} ub={}", gp, lb, ub)); }
            if !finite {
                if gp != 1.0 { bad(format!("gap:infinite-bound-not-1:lb={}:ub={}", cls(lb), cls(ub)), format!("gap() = {} although a bound is infinite (lb={} ub={})", gp, lb, ub)); }
                continue;
            }
            if (gp == 0.0) != (lb == ub) { bad(format!("gap:zero-iff-equal:lb={}:ub={}", cls(lb), cls(ub)), format!("gap() = {} for lb={} ub={} (must be 0 exactly when the bounds coincide)", gp, lb, ub)); }
            let same_sign = (lb >= 0 && ub >= 0) || (lb <= 0 && ub <= 0);
            if same_sign && gp > 1.0 { bad(format!("gap:above-1:lb={}:ub={}", cls(lb), cls(ub)), format!("gap() = {} > 1 for same-sign bounds lb={} ub={}", gp, lb, ub)); }
        }
    }
    // solver runs whose optimum is 0 or negative
    let (runs, zero_neg) = solver_part(&rep);
    let cov = json!({
        "evaluations": pairs + runs, "distinct_nontrivial": nontrivial,
        "rule": "every pair lb <= ub of the grid goes through the real default method Solver::gap() of a stub solver exposing these bounds: not NaN, >= 0, == 1 when lb == MIN or ub == MAX, == 0 exactly when lb == ub (finite), <= 1 when both finite bounds have the same sign (0 counts as either); plus real sequential solver runs on instances whose optimum is zero or negative (gap() must be 0 after an exact run); non-trivial = pairs of distinct finite bounds",
        "samples": samples, "exhaustive": true, "grid": g.iter().map(|x| x.to_string()).collect::<Vec<_>>(), "grid_pairs": pairs, "outcome_classes": outcomes,
        "solver_runs": runs, "solver_runs_with_zero_or_negative_optimum": zero_neg,
    });
    rep.finish("exploration", cov, vec!["the grid contains 0, +-1, small, huge, f32/f64 rounding edges, MIN/MAX and their neighbours".to_string()])
}

fn solver_part(rep: &Reporter) -> (u64, u64) {
    use crate::family::*;
    use crate::model::*;
    use crate::run::*;
    let mut runs = 0;
    let mut zn = 0;
    let fam = family("TM-0c");
    let cfgs = [Cfg { dd: DdKind::Lel, cache: false, nodup: false, width: 1 }, Cfg { dd: DdKind::Pooled, cache: true, nodup: true, width: 2 }];
    for idx in 0..fam.count() {
        let m = fam.build(idx, Variant::BASE);
        for cfg in cfgs.iter() {
            let out = run_seq(m.as_ref(), &RunSpec::plain(*cfg));
            runs += 1;
            if let Some(o) = m.opt() { if o <= 0 { zn += 1; } }
            if out.panicked.is_some() { continue; }
            if out.gap.is_nan() { rep.violation(format!("gap:nan:lb={}:ub={}", cls(out.lb), cls(out.ub)), format!("after maximize(): lb={} ub={} gap() is NaN", out.lb, out.ub), json!({"engine": "gap", "lb": out.lb, "ub": out.ub, "instance": fam.id_json(idx, Variant::BASE)})); }
            else if out.best_value.is_some() && out.lb == out.ub && out.gap != 0.0 { rep.violation(format!("gap:zero-iff-equal:lb={}:ub={}", cls(out.lb), cls(out.ub)), format!("after an exact run lb=ub={} but gap() = {}", out.lb, out.gap), json!({"engine": "gap", "lb": out.lb, "ub": out.ub})); }
        }
    }
    (runs, zn)
}

/// C13, second half: the width combinators never yield zero (exhaustive grid)
pub fn width_grid(rep: &Reporter) -> Value {
    let mut cases = 0u64;
    let mut zero_inner = 0u64;
    let sp = |len: usize| SubProblem { state: Arc::new(0u8), value: 0, path: vec![Decision { variable: Variable(0), value: 0 }; len], ub: 0, depth: len };
    let mut check = |name: String, w: usize, inner: usize| {
        cases += 1;
        if inner == 0 { zero_inner += 1; }
        if w == 0 { rep.violation("width:combinator-zero".to_string(), format!("{} yields a maximum width of 0", name), json!({"engine": "width-grid", "case": name})); }
    };
    for plen in 0..=5usize {
        let p = sp(plen);
        for x in 0..=5usize {
            for k in 0..=5usize {
                check(format!("Times({},FixedWidth({}))", k, x), Times(k, FixedWidth(x)).max_width(&p), x);
                if plen <= x { check(format!("Times({},NbUnassignedWidth({})) path {}", k, x, plen), Times(k, NbUnassignedWidth(x)).max_width(&p), x - plen); }
                for k2 in 1..=5usize {
                    check(format!("DivBy({},Times({},FixedWidth({})))", k2, k, x), DivBy(k2, Times(k, FixedWidth(x))).max_width(&p), x);
                    check(format!("Times({},DivBy({},FixedWidth({})))", k, k2, x), Times(k, DivBy(k2, FixedWidth(x))).max_width(&p), x);
                    if plen <= x {
                        check(format!("DivBy({},Times({},NbUnassignedWidth({}))) path {}", k2, k, x, plen), DivBy(k2, Times(k, NbUnassignedWidth(x))).max_width(&p), x - plen);
                        check(format!("Times({},DivBy({},NbUnassignedWidth({}))) path {}", k, k2, x, plen), Times(k, DivBy(k2, NbUnassignedWidth(x))).max_width(&p), x - plen);
                    }
                }
            }
            for k2 in 1..=5usize {
                check(format!("DivBy({},FixedWidth({}))", k2, x), DivBy(k2, FixedWidth(x)).max_width(&p), x);
                if plen <= x { check(format!("DivBy({},NbUnassignedWidth({})) path {}", k2, x, plen), DivBy(k2, NbUnassignedWidth(x)).max_width(&p), x - plen); }
                for k3 in 1..=5usize { check(format!("DivBy({},DivBy({},FixedWidth({})))", k2, k3, x), DivBy(k2, DivBy(k3, FixedWidth(x))).max_width(&p), x); }
            }
        }
    }
    json!({"cases": cases, "cases_with_zero_inner_width": zero_inner, "rule": "Times(k,X), DivBy(k',X) and their nestings of depth 2 for k in 0..=5, k' in 1..=5, X in FixedWidth(0..=5) / NbUnassignedWidth(n) with every path length <= n <= 5: result >= 1"})
}
