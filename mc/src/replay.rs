pub fn replay(_a: &[String]) -> i32 { 2 }
