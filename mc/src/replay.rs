//! `./check --replay <file>`: re-executes exactly the recorded case, without the explorer, and prints the diagnosis.
use crate::bnb;
use crate::family::from_id;
use crate::run::*;
use ddo::{Decision, Variable};
use serde_json::Value;

pub fn replay(args: &[String]) -> i32 {
    if args.is_empty() { eprintln!("usage: mc replay <file>"); return 2; }
    let doc: Value = match std::fs::read_to_string(&args[0]).ok().and_then(|s| serde_json::from_str(&s).ok()) { Some(d) => d, None => { eprintln!("cannot read {}", args[0]); return 2; } };
    let r = &doc["replay"];
    println!("property={} sig={}\nwhat: {}", doc["property"], doc["sig"], doc["what"]);
    match r["engine"].as_str().unwrap_or("") {
        "bnb" => {
            let (fam, idx, var) = from_id(&r["instance"]);
            let m = fam.build(idx, var);
            let cfg = Cfg::from_json(&r["cfg"]);
            let mut spec = RunSpec::plain(cfg);
            spec.record = true;
            let mode = r["mode"].as_str().unwrap_or("plain");
            if let Some(k) = r["k"].as_u64() { spec.fire_at = k as usize; }
            let mut primal = None;
            if mode == "primal" {
                let p = r["primal"].as_i64().unwrap() as isize;
                let wit: Vec<Decision> = r["witness"].as_array().unwrap().iter().map(|d| Decision { variable: Variable(d[0].as_u64().unwrap() as usize), value: d[1].as_i64().unwrap() as isize }).collect();
                spec.primal = Some((p, wit));
                primal = Some(p);
            }
            let out = run_seq(m.as_ref(), &spec);
            println!("model: {}", m.describe());
            println!("cfg: {} mode: {} fire_at: {}", cfg.short(), mode, if spec.fire_at == usize::MAX { "never".to_string() } else { spec.fire_at.to_string() });
            println!("outcome: {}", out.json());
            let fs = if spec.fire_at == usize::MAX { bnb::judge_plain(m.as_ref(), &cfg, &out, primal) } else { bnb::judge_cut(m.as_ref(), &cfg, &out) };
            for x in fs.iter() { println!("VIOLATION-REPLAYED property={} sig={} : {}", x.prop, x.sig, x.what); }
            if let Some(k2) = r["k2"].as_u64() {
                let mut s2 = RunSpec::plain(cfg);
                s2.fire_at = k2 as usize;
                let o2 = run_seq(m.as_ref(), &s2);
                println!("outcome at the next cut-off index {}: {}", k2, o2.json());
                if o2.lb < out.lb || o2.ub > out.ub { println!("VIOLATION-REPLAYED property=C19 : bounds are not monotone between poll {} and {}", spec.fire_at, k2); return 1; }
            }
            if fs.is_empty() { 0 } else { 1 }
        }
        "dd" => crate::dd::replay(r),
        "sched" => crate::sched::replay(r),
        "gap" => {
            struct S(isize, isize);
            impl ddo::Solver for S {
                fn maximize(&mut self) -> ddo::Completion { ddo::Completion { is_exact: false, best_value: None } }
                fn best_value(&self) -> Option<isize> { None }
                fn best_solution(&self) -> Option<ddo::Solution> { None }
                fn best_lower_bound(&self) -> isize { self.0 }
                fn best_upper_bound(&self) -> isize { self.1 }
                fn set_primal(&mut self, _: isize, _: ddo::Solution) {}
                fn explored(&self) -> usize { 0 }
            }
            let (lb, ub) = (r["lb"].as_i64().unwrap() as isize, r["ub"].as_i64().unwrap() as isize);
            println!("gap() with lb={} ub={} = {}", lb, ub, ddo::Solver::gap(&S(lb, ub)));
            0
        }
        e if e.starts_with("ops-") || e == "width-grid" || e == "loom" || e == "examples" => {
            println!("recorded case: {}", r);
            println!("this engine re-establishes its cases by re-running the (fast, deterministic) search: ./check {}", doc["property"].as_str().unwrap_or(""));
            0
        }
        e => { eprintln!("unknown engine {:?}", e); 2 }
    }
}
