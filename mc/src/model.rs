//! Model families used by every engine ("keep the model boring").
//!
//! One state type `St` for all models so that the number of solver
//! instantiations stays small:
//!   * `Tm`  table driven layered DP; relaxation = powerset (mask) or max-index (knapsack style)
//!   * `Sp`  set packing / independent set with dynamic variable order (state without depth)
use ddo::*;
use serde_json::{json, Value};
use std::cmp::Ordering;
use std::sync::Arc;

/// "minus infinity" used for rough bounds / coordinates of infeasible states
pub const NEG: isize = -1_000_000;

#[derive(Clone, Copy, Debug, PartialEq, Eq, Hash, PartialOrd, Ord)]
pub struct St {
    /// embedded depth (0 when the model variant is depth free)
    pub d: u8,
    /// payload: bit mask of base states (Tm) / set of selectable items (Sp)
    pub x: u32,
}

#[derive(Clone, Copy, Debug, PartialEq, Eq, Hash)]
pub enum Rub { None, Exact, Slack }
#[derive(Clone, Copy, Debug, PartialEq, Eq, Hash)]
pub enum Dom { Off, Exact, Weak, Coord }
#[derive(Clone, Copy, Debug, PartialEq, Eq, Hash)]
pub enum Rank { Asc, Desc, Equal }
#[derive(Clone, Copy, Debug, PartialEq, Eq, Hash)]
pub enum MergeMode { Powerset, MaxIdx, MaxIdxUp, MaxTop }

/// Model level variation points (they are part of the *model*, not of the solver configuration)
#[derive(Clone, Copy, Debug, PartialEq, Eq, Hash)]
pub struct Variant {
    pub flat: bool,
    pub bonus: bool,
    pub rub: Rub,
    pub dom: Dom,
    pub rank: Rank,
    pub revperm: bool,
    /// long arcs (only meaningful for SP; TM long arcs come from irrelevance tables)
    pub la: bool,
}
impl Variant {
    pub const BASE: Variant = Variant { flat: false, bonus: false, rub: Rub::None, dom: Dom::Off, rank: Rank::Asc, revperm: false, la: false };
    pub fn json(&self) -> Value {
        json!({"flat": self.flat, "bonus": self.bonus, "rub": format!("{:?}", self.rub), "dom": format!("{:?}", self.dom), "rank": format!("{:?}", self.rank), "revperm": self.revperm, "la": self.la})
    }
    pub fn from_json(v: &Value) -> Variant {
        Variant {
            flat: v["flat"].as_bool().unwrap_or(false),
            bonus: v["bonus"].as_bool().unwrap_or(false),
            rub: match v["rub"].as_str().unwrap_or("None") { "Exact" => Rub::Exact, "Slack" => Rub::Slack, _ => Rub::None },
            dom: match v["dom"].as_str().unwrap_or("Off") { "Exact" => Dom::Exact, "Weak" => Dom::Weak, "Coord" => Dom::Coord, _ => Dom::Off },
            rank: match v["rank"].as_str().unwrap_or("Asc") { "Desc" => Rank::Desc, "Equal" => Rank::Equal, _ => Rank::Asc },
            revperm: v["revperm"].as_bool().unwrap_or(false),
            la: v["la"].as_bool().unwrap_or(false),
        }
    }
}

/// A completion of a sub-problem as seen by the oracle: the sequence of (layer-or-var, decision value)
/// and its total value (including the value of the prefix it completes).
#[derive(Clone, Debug)]
pub struct FullPath {
    pub decisions: Vec<Decision>,
    pub value: isize,
}

/// What every model offers to the engines besides the ddo traits
pub trait Model: Problem<State = St> + Relaxation<State = St> + StateRanking<State = St> + Send + Sync {
    fn as_problem(&self) -> &(dyn Problem<State = St> + Send + Sync);
    fn as_relax(&self) -> &(dyn Relaxation<State = St> + Send + Sync);
    fn as_rank(&self) -> &(dyn StateRanking<State = St> + Send + Sync);
    fn describe(&self) -> Value;
    fn variant(&self) -> Variant;
    /// true when some state may be skipped by some variable (long arcs)
    fn has_long_arcs(&self) -> bool;
    /// true when the state type embeds the depth
    fn depth_embedded(&self) -> bool;
    /// optimum of the whole problem (None = infeasible)
    fn opt(&self) -> Option<isize>;
    /// number of root-to-terminal feasible or infeasible decision sequences (used for the fuel bound)
    fn nb_paths_bound(&self) -> usize;
    /// replays a *complete* solution (at most one decision per variable) from the initial state.
    /// Returns the objective value or a description of what is wrong with the solution
    fn replay_full(&self, sol: &[Decision]) -> Result<isize, String>;
    /// replays the path of a sub-problem: returns (state reached, value, depth at which that state is expanded)
    /// `depth` is the depth claimed by the sub-problem (needed for long arcs: skipped variables carry no decision)
    fn replay_prefix(&self, path: &[Decision], depth: usize) -> Result<(St, isize), String>;
    /// value-to-go of an exact state at a depth (None: no feasible completion)
    fn hstar(&self, depth: usize, s: &St) -> Option<isize>;
    /// all complete decision sequences from an exact sub-problem (state at depth), with value *to go*
    fn completions(&self, depth: usize, s: &St) -> Vec<FullPath>;
    /// does the completion `pi` (of the root sub-problem `root`, expressed as decisions beyond root.path)
    /// pass through sub-problem c ?  returns Some(prefix value to go from root) when it does
    fn passes_through(&self, root: &SubProblem<St>, pi: &FullPath, c: &SubProblem<St>) -> Option<isize>;
    /// all exact sub-problems reachable from the root: (state, depth, best value, worst value, witness paths)
    fn reachable(&self) -> Vec<Reach>;
    /// every achievable objective value with one witness solution
    fn achievable(&self) -> Vec<(isize, Vec<Decision>)>;
    /// dominance rule (None when the variant has none)
    fn dom_dims(&self) -> usize;
    fn dom_key(&self, s: &St) -> Option<u32>;
    fn dom_coord(&self, s: &St, i: usize) -> isize;
    /// is this state a legal *exact* state (e.g. singleton) ? used to check cache contract
    fn is_exact_state(&self, s: &St) -> bool;
    /// does every state get impacted by every variable (C13 precondition)
    fn all_impacted(&self) -> bool { !self.has_long_arcs() }
    /// independent verification of the model itself (Err = harness bug, never a verdict)
    fn self_check(&self) -> Result<(), String>;
}

#[derive(Clone, Debug)]
pub struct Reach {
    pub state: St,
    pub depth: usize,
    pub best: (isize, Vec<Decision>),
    pub worst: (isize, Vec<Decision>),
}

/// A `Dominance` rule which delegates to the model
pub struct GenDom<'a>(pub &'a dyn Model);
impl Dominance for GenDom<'_> {
    type State = St;
    type Key = u32;
    fn get_key(&self, state: Arc<St>) -> Option<u32> { self.0.dom_key(state.as_ref()) }
    fn nb_dimensions(&self, _: &St) -> usize { self.0.dom_dims() }
    fn get_coordinate(&self, state: &St, i: usize) -> isize { self.0.dom_coord(state, i) }
    fn use_value(&self) -> bool { true }
}

// ------------------------------------------------------------------------------------------
// TM : table model
// ------------------------------------------------------------------------------------------
#[derive(Clone, Debug)]
pub struct Tm {
    pub n: usize,
    pub s: usize,
    pub nd: usize,
    /// tr[l][s][d] = Some((target base state, cost))
    pub tr: Vec<Vec<Vec<Option<(u8, i8)>>>>,
    pub init_value: isize,
    /// base state of the root (layer 0)
    pub root: usize,
    pub var: Variant,
    pub mode: MergeMode,
    /// b[l][s] (l in 0..=n) deferred bonus (all zeros unless var.bonus)
    pub b: Vec<Vec<i8>>,
    /// irr[l][s]: state s is not impacted by the variable of layer l (requires var.flat); table overridden accordingly
    pub irr: Option<Vec<Vec<bool>>>,
    pub perm: Vec<usize>,
    pub inv: Vec<usize>,
    /// h[l][s] value to go with the *real* arc costs (b + c)
    pub h: Vec<Vec<Option<isize>>>,
    pub tag: String,
}

impl Tm {
    pub fn new(n: usize, s: usize, nd: usize, tr: Vec<Vec<Vec<Option<(u8, i8)>>>>, init_value: isize, var: Variant, tag: &str) -> Tm {
        let perm: Vec<usize> = if var.revperm { (0..n).rev().collect() } else { (0..n).collect() };
        let mut inv = vec![0; n];
        for (l, v) in perm.iter().enumerate() { inv[*v] = l; }
        let b = vec![vec![0i8; s]; n + 1];
        let mut tm = Tm { n, s, nd, tr, init_value, root: 0, var, mode: MergeMode::Powerset, b, irr: None, perm, inv, h: vec![], tag: tag.to_string() };
        tm.recompute();
        tm
    }
    pub fn with_bonus(mut self, b: Vec<Vec<i8>>) -> Tm {
        assert!(self.var.bonus);
        assert_eq!(b.len(), self.n + 1);
        self.b = b;
        for x in self.b[self.n].iter_mut() { *x = 0; }
        self.recompute();
        self
    }
    pub fn with_irrelevance(mut self, irr: Vec<Vec<bool>>) -> Tm {
        assert!(self.var.flat, "irrelevance needs a depth free state");
        assert!(!self.var.bonus, "irrelevance is not combined with the bonus relaxation (a long arc must be neutral)");
        for l in 0..self.n {
            for s in 0..self.s {
                if irr[l][s] {
                    for d in 0..self.nd { self.tr[l][s][d] = None; }
                    self.tr[l][s][0] = Some((s as u8, 0));
                }
            }
        }
        self.irr = Some(irr);
        self.recompute();
        self
    }
    pub fn with_mode(mut self, mode: MergeMode) -> Tm { self.mode = mode; self }
    pub fn with_root(mut self, root: usize) -> Tm { self.root = root; self }
    fn recompute(&mut self) {
        let mut h = vec![vec![None; self.s]; self.n + 1];
        for s in 0..self.s { h[self.n][s] = Some(0); }
        for l in (0..self.n).rev() {
            for s in 0..self.s {
                let mut best: Option<isize> = None;
                for d in 0..self.nd {
                    if let Some((t, c)) = self.tr[l][s][d] {
                        if let Some(r) = h[l + 1][t as usize] {
                            let v = r + c as isize + self.b[l][s] as isize;
                            if best.map_or(true, |b| v > b) { best = Some(v); }
                        }
                    }
                }
                h[l][s] = best;
            }
        }
        self.h = h;
    }
    #[inline]
    fn layer_of(&self, v: Variable) -> usize { self.inv[v.0] }
    #[inline]
    fn members(&self, x: u32) -> impl Iterator<Item = usize> + '_ { (0..self.s).filter(move |s| x & (1 << s) != 0) }
    #[inline]
    fn bmin(&self, l: usize, x: u32) -> isize {
        self.members(x).map(|s| self.b[l][s] as isize).min().unwrap_or(0)
    }
    fn mk(&self, depth: usize, x: u32) -> St { St { d: if self.var.flat { 0 } else { depth as u8 }, x } }
    fn single(&self, s: &St) -> Option<usize> { if s.x.count_ones() == 1 { Some(s.x.trailing_zeros() as usize) } else { None } }
    fn rub_at(&self, l: usize, x: u32) -> isize {
        let m = self.members(x).map(|s| self.h[l][s].map_or(NEG, |h| h - self.b[l][s] as isize)).max().unwrap_or(NEG);
        if m <= NEG { NEG } else { m + self.bmin(l, x) }
    }
    /// decision of the solution for the variable of layer l
    fn decision_for(&self, sol: &[Decision], l: usize) -> Result<Option<isize>, String> {
        let v = self.perm[l];
        let mut found = None;
        for d in sol.iter() {
            if d.variable.0 == v {
                if found.is_some() { return Err(format!("two decisions for variable {}", v)); }
                found = Some(d.value);
            }
        }
        Ok(found)
    }
    fn step(&self, l: usize, s: usize, dec: Option<isize>) -> Result<(usize, isize), String> {
        if l >= self.n || s >= self.s { return Err(format!("no layer {} / state {} in this model ({} layers)", l, s, self.n)); }
        let d = match dec {
            Some(d) => d,
            None => {
                // a missing decision is only legal for a state which is not impacted by the variable (long arc)
                if self.irr.as_ref().map_or(false, |i| i[l][s]) { 0 } else { return Err(format!("no decision for the variable of layer {} (state {} is impacted)", l, s)); }
            }
        };
        if d < 0 || d as usize >= self.nd { return Err(format!("decision value {} out of range at layer {}", d, l)); }
        match self.tr[l][s][d as usize] {
            None => Err(format!("decision {} not in the domain of state {} at layer {}", d, s, l)),
            Some((t, c)) => Ok((t as usize, c as isize + self.b[l][s] as isize)),
        }
    }
    /// Independent verification of the model itself (guards against false alarms). Err = harness bug.
    pub fn self_check(&self) -> Result<(), String> {
        // singleton exactness and merge over-approximation in potential form:
        //   for every layer l, mask X, member s, decision d in dom(s):  cost(X,d) + B-shift >= real cost
        for l in 0..self.n {
            let var = Variable(self.perm[l]);
            for x in 1u32..(1 << self.s) {
                if self.mode != MergeMode::Powerset && x.count_ones() != 1 { continue; }
                let src = self.mk(l, x);
                for d in 0..self.nd {
                    let dec = Decision { variable: var, value: d as isize };
                    let any = self.members(x).any(|s| self.tr[l][s][d].is_some());
                    if !any { continue; }
                    let dst = self.transition(&src, dec);
                    let cost = self.transition_cost(&src, &dst, dec);
                    for s in self.members(x) {
                        if let Some((t, c)) = self.tr[l][s][d] {
                            if dst.x & (1 << t) == 0 && self.mode == MergeMode::Powerset { return Err(format!("transition loses member l={} x={} s={} d={}", l, x, s, d)); }
                            // potential invariant: V(X)+B(X) >= v(s)+b(s)  must be preserved
                            let lhs = cost + self.bmin(l + 1, dst.x) - self.bmin(l, x);
                            let rhs = c as isize + self.b[l + 1][t as usize] as isize;
                            if self.mode == MergeMode::Powerset && lhs < rhs { return Err(format!("arc under-approximates l={} x={} s={} d={} lhs={} rhs={}", l, x, s, d, lhs, rhs)); }
                            if x.count_ones() == 1 && self.mode == MergeMode::Powerset {
                                let real = c as isize + self.b[l][s] as isize;
                                if cost != real { return Err(format!("singleton arc not exact l={} s={} d={} cost={} real={}", l, s, d, cost, real)); }
                            }
                        }
                    }
                }
                // rough bound admissible: rub(X) - B(X) >= h(s) - b(s)
                if self.var.rub != Rub::None {
                    let r = self.fast_upper_bound(&src);
                    for s in self.members(x) {
                        if let Some(h) = self.h[l][s] {
                            if r - self.bmin(l, x) < h - self.b[l][s] as isize { return Err(format!("rub not admissible l={} x={} s={}", l, x, s)); }
                        }
                    }
                }
            }
        }
        if self.mode != MergeMode::Powerset {
            // monotonicity: a larger index is at least as good (needed for merge = max and for the coordinate dominance)
            for l in 0..=self.n {
                for s in 1..self.s {
                    let lo = self.h[l][s - 1].unwrap_or(NEG);
                    let hi = self.h[l][s].unwrap_or(NEG);
                    if hi < lo { return Err(format!("MaxIdx model not monotone at l={} s={}", l, s)); }
                }
            }
        }
        Ok(())
    }
}

impl Problem for Tm {
    type State = St;
    fn nb_variables(&self) -> usize { self.n }
    fn initial_state(&self) -> St { self.mk(0, 1 << self.root) }
    fn initial_value(&self) -> isize { self.init_value }
    fn transition(&self, state: &St, decision: Decision) -> St {
        let l = self.layer_of(decision.variable);
        let d = decision.value as usize;
        let mut r = 0u32;
        for s in self.members(state.x) {
            if let Some((t, _)) = self.tr[l][s][d] { r |= 1 << t; }
        }
        if self.mode != MergeMode::Powerset && r != 0 { r = 1 << (31 - r.leading_zeros()); }
        self.mk(l + 1, r)
    }
    fn transition_cost(&self, source: &St, dest: &St, decision: Decision) -> isize {
        let l = self.layer_of(decision.variable);
        let d = decision.value as usize;
        let mut m = isize::MIN;
        for s in self.members(source.x) {
            if let Some((t, c)) = self.tr[l][s][d] { m = m.max(c as isize + self.b[l + 1][t as usize] as isize); }
        }
        if m == isize::MIN { return NEG; }
        self.bmin(l, source.x) + m - self.bmin(l + 1, dest.x)
    }
    fn next_variable(&self, depth: usize, _: &mut dyn Iterator<Item = &St>) -> Option<Variable> {
        if depth < self.n { Some(Variable(self.perm[depth])) } else { None }
    }
    fn for_each_in_domain(&self, var: Variable, state: &St, f: &mut dyn DecisionCallback) {
        let l = self.layer_of(var);
        for d in 0..self.nd {
            if self.members(state.x).any(|s| self.tr[l][s][d].is_some()) {
                f.apply(Decision { variable: var, value: d as isize });
            }
        }
    }
    fn is_impacted_by(&self, var: Variable, state: &St) -> bool {
        match &self.irr {
            None => true,
            Some(irr) => { let l = self.layer_of(var); self.members(state.x).any(|s| !irr[l][s]) }
        }
    }
}
impl Relaxation for Tm {
    type State = St;
    fn merge(&self, states: &mut dyn Iterator<Item = &St>) -> St {
        let mut d = 0;
        let mut x = 0;
        for s in states { d = s.d; x |= s.x; }
        if self.mode != MergeMode::Powerset && x != 0 {
            let top = 31 - x.leading_zeros();
            let single = x.count_ones() == 1;
            x = if self.mode == MergeMode::MaxIdxUp && !single { 1 << (top + 1).min(self.s as u32 - 1) } else if self.mode == MergeMode::MaxTop && !single { 1 << (self.s as u32 - 1) } else { 1 << top };
        }
        St { d, x }
    }
    fn relax(&self, _source: &St, dest: &St, new: &St, decision: Decision, cost: isize) -> isize {
        let l = self.layer_of(decision.variable) + 1;
        cost + self.bmin(l, dest.x) - self.bmin(l, new.x)
    }
    fn fast_upper_bound(&self, state: &St) -> isize {
        let slack = match self.var.rub { Rub::None => return isize::MAX, Rub::Exact => 0, Rub::Slack => 1 };
        let r = if self.var.flat {
            (0..=self.n).map(|l| self.rub_at(l, state.x)).max().unwrap()
        } else {
            self.rub_at(state.d as usize, state.x)
        };
        if r <= NEG { NEG } else { r + slack }
    }
}
impl StateRanking for Tm {
    type State = St;
    fn compare(&self, a: &St, b: &St) -> Ordering {
        match self.var.rank { Rank::Asc => a.x.cmp(&b.x), Rank::Desc => b.x.cmp(&a.x), Rank::Equal => Ordering::Equal }
    }
}

impl Model for Tm {
    fn as_problem(&self) -> &(dyn Problem<State = St> + Send + Sync) { self }
    fn as_relax(&self) -> &(dyn Relaxation<State = St> + Send + Sync) { self }
    fn as_rank(&self) -> &(dyn StateRanking<State = St> + Send + Sync) { self }
    fn describe(&self) -> Value {
        let tr: Vec<Vec<Vec<Value>>> = self.tr.iter().map(|l| l.iter().map(|s| s.iter().map(|e| match e { None => Value::Null, Some((t, c)) => json!([t, c]) }).collect()).collect()).collect();
        json!({"model": "TM", "tag": self.tag, "n": self.n, "S": self.s, "D": self.nd, "tr[l][s][d]=[t,c]": tr, "init_value": self.init_value, "root": self.root,
               "variant": self.var.json(), "mode": format!("{:?}", self.mode), "bonus": if self.var.bonus { json!(self.b) } else { Value::Null },
               "irr": match &self.irr { None => Value::Null, Some(i) => json!(i) }, "opt": self.opt()})
    }
    fn variant(&self) -> Variant { self.var }
    fn has_long_arcs(&self) -> bool { self.irr.as_ref().map_or(false, |i| i.iter().any(|l| l.iter().any(|b| *b))) }
    fn depth_embedded(&self) -> bool { !self.var.flat }
    fn opt(&self) -> Option<isize> { self.h[0][self.root].map(|h| h + self.init_value) }
    fn nb_paths_bound(&self) -> usize { self.nd.pow(self.n as u32).max(1) }
    fn replay_full(&self, sol: &[Decision]) -> Result<isize, String> {
        if sol.iter().any(|d| d.variable.0 >= self.n) { return Err("decision on an unknown variable".to_string()); }
        if sol.len() > self.n { return Err("more decisions than variables".to_string()); }
        let mut s = self.root;
        let mut v = self.init_value;
        for l in 0..self.n {
            let dec = self.decision_for(sol, l)?;
            let (t, c) = self.step(l, s, dec)?;
            s = t;
            v += c;
        }
        Ok(v)
    }
    fn replay_prefix(&self, path: &[Decision], depth: usize) -> Result<(St, isize), String> {
        if depth > self.n { return Err(format!("depth {} beyond the last layer", depth)); }
        if path.iter().any(|d| d.variable.0 >= self.n || self.inv[d.variable.0] >= depth) { return Err(format!("path holds a decision on a variable at or below depth {}", depth)); }
        if path.len() > depth { return Err("path longer than depth".to_string()); }
        let mut s = self.root;
        let mut v = self.init_value;
        for l in 0..depth {
            let dec = self.decision_for(path, l)?;
            let (t, c) = self.step(l, s, dec)?;
            s = t;
            v += c;
        }
        Ok((self.mk(depth, 1 << s), v))
    }
    fn hstar(&self, depth: usize, st: &St) -> Option<isize> {
        // total: the depth may come from a sub-problem produced by the library under test
        let s = self.single(st)?;
        self.h.get(depth).and_then(|row| row.get(s)).copied().flatten()
    }
    fn completions(&self, depth: usize, st: &St) -> Vec<FullPath> {
        let mut out = vec![];
        let s = match self.single(st) { Some(s) => s, None => return out };
        fn rec(tm: &Tm, l: usize, s: usize, acc: &mut Vec<Decision>, v: isize, out: &mut Vec<FullPath>) {
            if l == tm.n { out.push(FullPath { decisions: acc.clone(), value: v }); return; }
            for d in 0..tm.nd {
                if let Some((t, c)) = tm.tr[l][s][d] {
                    acc.push(Decision { variable: Variable(tm.perm[l]), value: d as isize });
                    rec(tm, l + 1, t as usize, acc, v + c as isize + tm.b[l][s] as isize, out);
                    acc.pop();
                }
            }
        }
        rec(self, depth, s, &mut vec![], 0, &mut out);
        out
    }
    fn passes_through(&self, root: &SubProblem<St>, pi: &FullPath, c: &SubProblem<St>) -> Option<isize> {
        // pi.decisions[i] is the decision of layer root.depth + i
        let mut s = self.single(root.state.as_ref())?;
        let mut v = 0;
        if c.depth < root.depth { return None; }
        for l in root.depth..c.depth {
            let d = pi.decisions.get(l - root.depth)?.value;
            let (t, cst) = self.step(l, s, Some(d)).ok()?;
            s = t;
            v += cst;
        }
        if self.single(c.state.as_ref()) == Some(s) { Some(v) } else { None }
    }
    fn reachable(&self) -> Vec<Reach> {
        // per (layer, s): best and worst prefix
        let mut cur: Vec<Option<Reach>> = vec![None; self.s];
        cur[self.root] = Some(Reach { state: self.mk(0, 1 << self.root), depth: 0, best: (self.init_value, vec![]), worst: (self.init_value, vec![]) });
        let mut out = vec![];
        for l in 0..=self.n {
            for r in cur.iter().flatten() { out.push(r.clone()); }
            if l == self.n { break; }
            let mut nxt: Vec<Option<Reach>> = vec![None; self.s];
            for s in 0..self.s {
                if let Some(r) = &cur[s] {
                    for d in 0..self.nd {
                        if let Some((t, c)) = self.tr[l][s][d] {
                            let c = c as isize + self.b[l][s] as isize;
                            let dec = Decision { variable: Variable(self.perm[l]), value: d as isize };
                            let skip = self.irr.as_ref().map_or(false, |i| i[l][s]);
                            let ext = |p: &(isize, Vec<Decision>)| { let mut q = p.1.clone(); if !skip { q.push(dec); } (p.0 + c, q) };
                            let nb = ext(&r.best);
                            let nw = ext(&r.worst);
                            let t = t as usize;
                            match &mut nxt[t] {
                                None => nxt[t] = Some(Reach { state: self.mk(l + 1, 1 << t), depth: l + 1, best: nb, worst: nw }),
                                Some(e) => { if nb.0 > e.best.0 { e.best = nb; } if nw.0 < e.worst.0 { e.worst = nw; } }
                            }
                        }
                    }
                }
            }
            cur = nxt;
        }
        out
    }
    fn achievable(&self) -> Vec<(isize, Vec<Decision>)> {
        let mut out: Vec<(isize, Vec<Decision>)> = vec![];
        for p in self.completions(0, &self.mk(0, 1 << self.root)) {
            let v = p.value + self.init_value;
            if !out.iter().any(|(x, _)| *x == v) { out.push((v, p.decisions)); }
        }
        out.sort_by_key(|x| x.0);
        out
    }
    fn dom_dims(&self) -> usize { match self.var.dom { Dom::Off => 0, Dom::Exact | Dom::Coord => 1, Dom::Weak => 2 } }
    fn dom_key(&self, s: &St) -> Option<u32> {
        if self.var.dom == Dom::Off || self.var.flat { return None; }
        self.single(s).map(|_| 0)
    }
    fn dom_coord(&self, st: &St, i: usize) -> isize {
        // total on every state: the library also uses the rule's comparator to *sort* layers which contain merged nodes
        let l = (st.d as usize).min(self.n);
        match (self.var.dom, i) {
            (Dom::Coord, _) => self.members(st.x).max().unwrap_or(0) as isize,
            (_, 0) => self.members(st.x).map(|s| self.h[l][s].unwrap_or(NEG)).max().unwrap_or(NEG),
            (_, _) => self.members(st.x).map(|s| (s % 2) as isize).max().unwrap_or(0),
        }
    }
    fn is_exact_state(&self, s: &St) -> bool { s.x.count_ones() == 1 }
    fn self_check(&self) -> Result<(), String> { Tm::self_check(self) }
}

// ------------------------------------------------------------------------------------------
// SP : set packing / independent set with dynamic variable ordering (mirrors examples/misp)
// ------------------------------------------------------------------------------------------
#[derive(Clone, Debug)]
pub struct Sp {
    pub m: usize,
    pub w: Vec<isize>,
    /// adj[v] = mask of the neighbours of v
    pub adj: Vec<u32>,
    pub long_arcs: bool,
    pub rub: bool,
    pub rank: Rank,
    pub tag: String,
    /// superset dominance rule: one key, one 0/1 coordinate per vertex (b dominates a iff b contains a and is worth at least as
    /// much): admissible because the weights are positive.  Together with the content dependent variable order of this model.
    pub dom: bool,
}
impl Sp {
    pub fn new(m: usize, w: Vec<isize>, adj: Vec<u32>, long_arcs: bool, rub: bool, rank: Rank, tag: &str) -> Sp {
        Sp { m, w, adj, long_arcs, rub, rank, tag: tag.to_string(), dom: false }
    }
    fn weight(&self, x: u32) -> isize { (0..self.m).filter(|v| x & (1 << v) != 0).map(|v| self.w[v]).sum() }
    fn best(&self, x: u32) -> isize {
        // max weight independent set inside x
        if x == 0 { return 0; }
        let v = x.trailing_zeros() as usize;
        let without = self.best(x & !(1 << v));
        let with = self.w[v] + self.best(x & !(1 << v) & !self.adj[v]);
        without.max(with)
    }
    /// (decided mask, yes mask) of a path, or an error
    fn assignment(&self, path: &[Decision]) -> Result<(u32, u32), String> {
        let mut dec = 0u32;
        let mut yes = 0u32;
        for d in path {
            let v = d.variable.0;
            if v >= self.m { return Err(format!("unknown variable {}", v)); }
            if dec & (1 << v) != 0 { return Err(format!("two decisions for variable {}", v)); }
            dec |= 1 << v;
            match d.value { 1 => yes |= 1 << v, 0 => (), x => return Err(format!("decision value {} out of the domain", x)) }
        }
        for v in 0..self.m {
            if yes & (1 << v) != 0 && yes & self.adj[v] != 0 { return Err(format!("vertex {} selected together with a neighbour", v)); }
        }
        Ok((dec, yes))
    }
    fn state_after(&self, from: u32, dec: u32, yes: u32) -> u32 {
        let mut x = from & !dec;
        for v in 0..self.m { if yes & (1 << v) != 0 { x &= !self.adj[v]; } }
        x
    }
    fn full(&self) -> u32 { (1u32 << self.m) - 1 }
}
impl Problem for Sp {
    type State = St;
    fn nb_variables(&self) -> usize { self.m }
    fn initial_state(&self) -> St { St { d: 0, x: self.full() } }
    fn initial_value(&self) -> isize { 0 }
    fn transition(&self, state: &St, decision: Decision) -> St {
        let v = decision.variable.0;
        let mut x = state.x & !(1 << v);
        if decision.value == 1 { x &= !self.adj[v]; }
        St { d: 0, x }
    }
    fn transition_cost(&self, _: &St, _: &St, decision: Decision) -> isize {
        if decision.value == 1 { self.w[decision.variable.0] } else { 0 }
    }
    fn next_variable(&self, _: usize, next_layer: &mut dyn Iterator<Item = &St>) -> Option<Variable> {
        let mut cnt = vec![0usize; self.m];
        for s in next_layer { for v in 0..self.m { if s.x & (1 << v) != 0 { cnt[v] += 1; } } }
        cnt.iter().copied().enumerate().filter(|(_, c)| *c > 0).min_by_key(|(_, c)| *c).map(|(v, _)| Variable(v))
    }
    fn for_each_in_domain(&self, var: Variable, state: &St, f: &mut dyn DecisionCallback) {
        if state.x & (1 << var.0) != 0 { f.apply(Decision { variable: var, value: 1 }); }
        f.apply(Decision { variable: var, value: 0 });
    }
    fn is_impacted_by(&self, var: Variable, state: &St) -> bool {
        if self.long_arcs { state.x & (1 << var.0) != 0 } else { true }
    }
}
impl Relaxation for Sp {
    type State = St;
    fn merge(&self, states: &mut dyn Iterator<Item = &St>) -> St { St { d: 0, x: states.fold(0, |a, s| a | s.x) } }
    fn relax(&self, _: &St, _: &St, _: &St, _: Decision, cost: isize) -> isize { cost }
    fn fast_upper_bound(&self, state: &St) -> isize { if self.rub { self.weight(state.x) } else { isize::MAX } }
}
impl StateRanking for Sp {
    type State = St;
    fn compare(&self, a: &St, b: &St) -> Ordering {
        let o = a.x.count_ones().cmp(&b.x.count_ones()).then_with(|| a.x.cmp(&b.x));
        match self.rank { Rank::Asc => o, Rank::Desc => o.reverse(), Rank::Equal => Ordering::Equal }
    }
}
impl Model for Sp {
    fn as_problem(&self) -> &(dyn Problem<State = St> + Send + Sync) { self }
    fn as_relax(&self) -> &(dyn Relaxation<State = St> + Send + Sync) { self }
    fn as_rank(&self) -> &(dyn StateRanking<State = St> + Send + Sync) { self }
    fn describe(&self) -> Value {
        let edges: Vec<(usize, usize)> = (0..self.m).flat_map(|u| (u + 1..self.m).filter(move |v| self.adj[u] & (1 << v) != 0).map(move |v| (u, v))).collect();
        json!({"model": "SP", "tag": self.tag, "m": self.m, "weights": self.w, "edges": edges, "long_arcs": self.long_arcs, "rub": self.rub, "rank": format!("{:?}", self.rank), "opt": self.opt()})
    }
    fn variant(&self) -> Variant { Variant { flat: true, bonus: false, rub: if self.rub { Rub::Exact } else { Rub::None }, dom: if self.dom { Dom::Coord } else { Dom::Off }, rank: self.rank, revperm: false, la: self.long_arcs } }
    fn has_long_arcs(&self) -> bool { self.long_arcs }
    fn depth_embedded(&self) -> bool { false }
    fn opt(&self) -> Option<isize> { Some(self.best(self.full())) }
    fn nb_paths_bound(&self) -> usize { 1 << self.m }
    fn replay_full(&self, sol: &[Decision]) -> Result<isize, String> {
        let (_, yes) = self.assignment(sol)?;
        Ok(self.weight(yes))
    }
    fn replay_prefix(&self, path: &[Decision], depth: usize) -> Result<(St, isize), String> {
        let (dec, yes) = self.assignment(path)?;
        if path.len() > depth { return Err("path longer than depth".to_string()); }
        if !self.long_arcs && path.len() != depth { return Err(format!("depth {} differs from the number of decisions {}", depth, path.len())); }
        Ok((St { d: 0, x: self.state_after(self.full(), dec, yes) }, self.weight(yes)))
    }
    fn hstar(&self, _: usize, s: &St) -> Option<isize> { Some(self.best(s.x)) }
    fn completions(&self, _: usize, s: &St) -> Vec<FullPath> {
        // all independent subsets of s.x : yes set Y, every other vertex of s.x decided NO
        let mut out = vec![];
        let x = s.x;
        let mut y = x;
        loop {
            let indep = (0..self.m).all(|v| y & (1 << v) == 0 || y & self.adj[v] == 0);
            if indep {
                let decisions = (0..self.m).filter(|v| x & (1 << v) != 0).map(|v| Decision { variable: Variable(v), value: if y & (1 << v) != 0 { 1 } else { 0 } }).collect();
                out.push(FullPath { decisions, value: self.weight(y) });
            }
            if y == 0 { break; }
            y = (y - 1) & x;
        }
        out
    }
    fn passes_through(&self, root: &SubProblem<St>, pi: &FullPath, c: &SubProblem<St>) -> Option<isize> {
        // variables decided by c beyond the root
        let (rdec, _) = self.assignment(&root.path).ok()?;
        let (cdec, _) = self.assignment(&c.path).ok()?;
        let beyond = cdec & !rdec;
        let mut yes = 0u32;
        for d in pi.decisions.iter() { if d.value == 1 && beyond & (1 << d.variable.0) != 0 { yes |= 1 << d.variable.0; } }
        // pi must agree that the selected vertices among `beyond` were selectable
        let x = self.state_after(root.state.x, beyond, yes);
        if x == c.state.x { Some(self.weight(yes)) } else { None }
    }
    fn reachable(&self) -> Vec<Reach> {
        // exact states reachable with the single-state variable order; value = best / worst prefix
        let mut out: Vec<Reach> = vec![];
        fn rec(sp: &Sp, x: u32, depth: usize, v: isize, path: &mut Vec<Decision>, out: &mut Vec<Reach>) {
            let st = St { d: 0, x };
            match out.iter_mut().find(|r| r.state == st && r.depth == depth) {
                Some(r) => { if v > r.best.0 { r.best = (v, path.clone()); } if v < r.worst.0 { r.worst = (v, path.clone()); } }
                None => out.push(Reach { state: st, depth, best: (v, path.clone()), worst: (v, path.clone()) }),
            }
            if x == 0 { return; }
            let var = x.trailing_zeros() as usize;
            for val in [1isize, 0] {
                let d = Decision { variable: Variable(var), value: val };
                let nx = sp.transition(&st, d).x;
                path.push(d);
                rec(sp, nx, depth + 1, v + if val == 1 { sp.w[var] } else { 0 }, path, out);
                path.pop();
            }
        }
        rec(self, self.full(), 0, 0, &mut vec![], &mut out);
        out
    }
    fn achievable(&self) -> Vec<(isize, Vec<Decision>)> {
        let mut out: Vec<(isize, Vec<Decision>)> = vec![];
        for p in self.completions(0, &self.initial_state()) {
            if !out.iter().any(|(x, _)| *x == p.value) { out.push((p.value, p.decisions)); }
        }
        out.sort_by_key(|x| x.0);
        out
    }
    fn dom_dims(&self) -> usize { if self.dom { self.m } else { 0 } }
    fn dom_key(&self, _: &St) -> Option<u32> { if self.dom { Some(0) } else { None } }
    fn dom_coord(&self, s: &St, i: usize) -> isize { ((s.x >> i) & 1) as isize }
    fn is_exact_state(&self, _: &St) -> bool { true }
    fn self_check(&self) -> Result<(), String> {
        for v in 0..self.m { if self.adj[v] & (1 << v) != 0 { return Err("self loop".to_string()); } for u in 0..self.m { if (self.adj[v] >> u) & 1 != (self.adj[u] >> v) & 1 { return Err("asymmetric adjacency".to_string()); } } }
        if self.w.iter().any(|w| *w <= 0) { return Err("non positive weight".to_string()); }
        Ok(())
    }
}
