//! A small reader for the DOT subset emitted by as_graphviz, and the C20 oracle.
use crate::dd::{Agg, CompRes, Finding, Target};
use crate::model::*;
use crate::run::DdKind;
use std::collections::{BTreeMap, BTreeSet};

#[derive(Debug, Clone, PartialEq)]
enum Tok { Id(String), Str(String), LBrace, RBrace, LBrack, RBrack, Semi, Comma, Eq, Arrow }

fn lex(s: &str) -> Result<Vec<Tok>, String> {
    let cs: Vec<char> = s.chars().collect();
    let mut i = 0;
    let mut out = vec![];
    while i < cs.len() {
        let c = cs[i];
        match c {
            ' ' | '\t' | '\n' | '\r' => i += 1,
            '{' => { out.push(Tok::LBrace); i += 1 }
            '}' => { out.push(Tok::RBrace); i += 1 }
            '[' => { out.push(Tok::LBrack); i += 1 }
            ']' => { out.push(Tok::RBrack); i += 1 }
            ';' => { out.push(Tok::Semi); i += 1 }
            ',' => { out.push(Tok::Comma); i += 1 }
            '=' => { out.push(Tok::Eq); i += 1 }
            '-' if i + 1 < cs.len() && cs[i + 1] == '>' => { out.push(Tok::Arrow); i += 2 }
            '"' => {
                let mut j = i + 1;
                let mut t = String::new();
                loop {
                    if j >= cs.len() { return Err("unterminated string".to_string()); }
                    if cs[j] == '\\' && j + 1 < cs.len() { t.push(cs[j]); t.push(cs[j + 1]); j += 2; continue; }
                    if cs[j] == '"' { break; }
                    t.push(cs[j]);
                    j += 1;
                }
                out.push(Tok::Str(t));
                i = j + 1;
            }
            c if c.is_alphanumeric() || c == '_' || c == '.' || c == '-' || c == '#' => {
                let mut j = i;
                let mut t = String::new();
                while j < cs.len() && (cs[j].is_alphanumeric() || cs[j] == '_' || cs[j] == '.' || (cs[j] == '-' && !(j + 1 < cs.len() && cs[j + 1] == '>'))) { t.push(cs[j]); j += 1; }
                if t.is_empty() { return Err(format!("unexpected character {:?}", c)); }
                out.push(Tok::Id(t));
                i = j;
            }
            c => return Err(format!("unexpected character {:?} at offset {}", c, i)),
        }
    }
    Ok(out)
}

#[derive(Debug, Default, Clone)]
pub struct Graph {
    pub nodes: Vec<(String, BTreeMap<String, String>)>,
    pub edges: Vec<(String, String, BTreeMap<String, String>)>,
    pub cluster_members: Vec<String>,
    pub clusters: usize,
}

struct P { t: Vec<Tok>, i: usize }
impl P {
    fn peek(&self) -> Option<&Tok> { self.t.get(self.i) }
    fn next(&mut self) -> Option<Tok> { let x = self.t.get(self.i).cloned(); self.i += 1; x }
    fn expect(&mut self, t: Tok) -> Result<(), String> { match self.next() { Some(x) if x == t => Ok(()), x => Err(format!("expected {:?} found {:?} (token {})", t, x, self.i)) } }
    fn id(&mut self) -> Result<String, String> { match self.next() { Some(Tok::Id(s)) | Some(Tok::Str(s)) => Ok(s), x => Err(format!("expected an identifier, found {:?} (token {})", x, self.i)) } }
    fn attrs(&mut self) -> Result<BTreeMap<String, String>, String> {
        let mut m = BTreeMap::new();
        self.expect(Tok::LBrack)?;
        loop {
            if self.peek() == Some(&Tok::RBrack) { self.i += 1; break; }
            let k = self.id()?;
            self.expect(Tok::Eq)?;
            let v = self.id()?;
            if m.insert(k.clone(), v).is_some() { return Err(format!("attribute {} given twice", k)); }
            if self.peek() == Some(&Tok::Comma) || self.peek() == Some(&Tok::Semi) { self.i += 1; }
        }
        Ok(m)
    }
    fn stmts(&mut self, g: &mut Graph, in_cluster: bool) -> Result<(), String> {
        loop {
            match self.peek() {
                None => return Err("unexpected end of text".to_string()),
                Some(Tok::RBrace) => return Ok(()),
                Some(Tok::Semi) => { self.i += 1; }
                _ => {
                    let a = self.id()?;
                    if a == "subgraph" {
                        let _name = self.id()?;
                        self.expect(Tok::LBrace)?;
                        g.clusters += 1;
                        self.stmts(g, true)?;
                        self.expect(Tok::RBrace)?;
                        continue;
                    }
                    match self.peek() {
                        Some(Tok::Eq) => { self.i += 1; let _ = self.id()?; }
                        Some(Tok::Arrow) => {
                            self.i += 1;
                            let b = self.id()?;
                            let at = if self.peek() == Some(&Tok::LBrack) { self.attrs()? } else { BTreeMap::new() };
                            g.edges.push((a, b, at));
                        }
                        Some(Tok::LBrack) => { let at = self.attrs()?; if in_cluster { return Err("node declaration inside a cluster".to_string()); } g.nodes.push((a, at)); }
                        _ => { if in_cluster { g.cluster_members.push(a); } else { g.nodes.push((a, BTreeMap::new())); } }
                    }
                }
            }
        }
    }
}

pub fn parse(text: &str) -> Result<Graph, String> {
    let toks = lex(text)?;
    let mut p = P { t: toks, i: 0 };
    let kw = p.id()?;
    if kw != "digraph" { return Err(format!("expected digraph, found {}", kw)); }
    if let Some(Tok::Id(_)) = p.peek() { p.i += 1; }
    p.expect(Tok::LBrace)?;
    let mut g = Graph::default();
    p.stmts(&mut g, false)?;
    p.expect(Tok::RBrace)?;
    if p.peek().is_some() { return Err("text after the closing brace".to_string()); }
    Ok(g)
}

fn state_of(label: &str) -> String { label.split("\\n").next().unwrap_or("").to_string() }

type EdgeKey = (String, usize, isize, isize, String);
fn edge_key(g: &Graph, labels: &BTreeMap<String, String>, e: &(String, String, BTreeMap<String, String>)) -> Result<EdgeKey, String> {
    let _ = g;
    let l = e.2.get("label").ok_or("edge without label")?;
    // "(x{var} = {value})\ncost = {cost}"
    let l2 = l.replace("\\n", " ");
    let parts: Vec<&str> = l2.split(|c: char| c == '(' || c == ')' || c == ' ' || c == '=').filter(|s| !s.is_empty()).collect();
    // parts: ["x{var}", "{value}", "cost", "{cost}"]
    if parts.len() != 4 || !parts[0].starts_with('x') || parts[2] != "cost" { return Err(format!("unexpected edge label {:?}", l)); }
    let var: usize = parts[0][1..].parse().map_err(|_| format!("bad variable in {:?}", l))?;
    let val: isize = parts[1].parse().map_err(|_| format!("bad value in {:?}", l))?;
    let cost: isize = parts[3].parse().map_err(|_| format!("bad cost in {:?}", l))?;
    let from = labels.get(&e.0).ok_or_else(|| format!("edge from undeclared node {}", e.0))?;
    let to = labels.get(&e.1).ok_or_else(|| format!("edge to undeclared node {}", e.1))?;
    Ok((from.clone(), var, val, cost, to.clone()))
}

pub fn judge_viz(m: &dyn Model, kind: DdKind, _t: &Target, res: &CompRes, agg: &mut Agg) -> Vec<Finding> {
    let mut f = vec![];
    let k = format!("{:?}", kind).to_lowercase();
    let mut bad = |sig: &str, what: String| f.push(Finding { prop: "C20", sig: format!("viz:{}:{}", sig, k), what });
    if res.panicked.is_some() || res.err { return f; }
    // expected multiset of arcs from the callbacks
    let mut expected: BTreeMap<EdgeKey, isize> = BTreeMap::new();
    for (src, d, dst, cost) in res.arc_log.iter() { *expected.entry((format!("{:?}", src), d.variable.0, d.value, *cost, format!("{:?}", dst))).or_insert(0) += 1; }
    for (src, d, _dst, merged, _cost, rcost) in res.relaxed_log.iter() { *expected.entry((format!("{:?}", src), d.variable.0, d.value, *rcost, format!("{:?}", merged))).or_insert(0) += 1; }
    let has_deleted = !res.merge_log.is_empty() || res.viz.iter().any(|(_, t)| t.as_ref().map_or(false, |t| t.contains("shape=square")));
    // reference drawing: everything shown
    let mut full: Option<Graph> = None;
    let mut graphs: Vec<(usize, Graph)> = vec![];
    for (bits, text) in res.viz.iter() {
        agg.viz_texts += 1;
        if has_deleted { agg.viz_with_deleted += 1; }
        if res.best_value.is_none() { agg.viz_infeasible += 1; }
        match text {
            Err(p) => { bad("panic", format!("as_graphviz panicked with config bits {:06b}: {}", bits, p)); continue; }
            Ok(t) => match parse(t) {
                Err(e) => { bad("syntax", format!("config bits {:06b}: not well-formed DOT: {}", bits, e)); continue; }
                Ok(g) => { if *bits == 16 + 15 { full = Some(g.clone()); } graphs.push((*bits, g)); }
            },
        }
    }
    let full_squares: BTreeSet<String> = full.as_ref().map_or(BTreeSet::new(), |g| g.nodes.iter().filter(|(_, a)| a.get("shape").map_or(false, |s| s == "square")).map(|(id, _)| id.clone()).collect());
    let full_yellow: BTreeSet<String> = full.as_ref().map_or(BTreeSet::new(), |g| g.nodes.iter().filter(|(_, a)| a.get("color").map_or(false, |s| s == "yellow")).map(|(id, _)| id.clone()).collect());
    let full_ids: BTreeSet<String> = full.as_ref().map_or(BTreeSet::new(), |g| g.nodes.iter().map(|(id, _)| id.clone()).collect());
    let full_labels: BTreeMap<String, String> = full.as_ref().map_or(BTreeMap::new(), |g| g.nodes.iter().filter(|(id, _)| id != "terminal").map(|(id, a)| (id.clone(), state_of(a.get("label").map_or("", |s| s.as_str())))).collect());
    for (bits, g) in graphs.iter() {
        let cfg = crate::dd::viz_config(*bits);
        // 1. ids unique
        let mut seen = BTreeSet::new();
        for (id, _) in g.nodes.iter() { if !seen.insert(id.clone()) { bad("duplicate-node", format!("config {:06b}: node {} declared twice", bits, id)); break; } }
        // 2. labels hold exactly the requested fields
        let mut labels: BTreeMap<String, String> = BTreeMap::new();
        for (id, a) in g.nodes.iter() {
            if id == "terminal" { continue; }
            let l = match a.get("label") { Some(l) => l, None => { bad("no-label", format!("config {:06b}: node {} has no label", bits, id)); continue; } };
            labels.insert(id.clone(), state_of(l));
            for (flag, key) in [(cfg.show_value, "\\nval: "), (cfg.show_locb, "\\nlocb: "), (cfg.show_rub, "\\nrub: "), (cfg.show_threshold, "\\ntheta: ")] {
                if l.contains(key) != flag { bad("label-fields", format!("config {:06b}: label {:?} of node {} {} field {:?}", bits, l, id, if flag { "lacks" } else { "has unrequested" }, key)); break; }
            }
        }
        // 3. edges
        let hidden_ok = |id: &String| full_squares.contains(id);
        let mut drawn: BTreeMap<EdgeKey, isize> = BTreeMap::new();
        let mut term_src: Vec<(String, bool)> = vec![];
        let mut out_deg: BTreeMap<String, usize> = BTreeMap::new();
        for e in g.edges.iter() {
            if e.1 == "terminal" {
                term_src.push((e.0.clone(), e.2.get("penwidth").map_or(false, |p| p == "3")));
                if !labels.contains_key(&e.0) && !hidden_ok(&e.0) { bad("edge-endpoint", format!("config {:06b}: terminal edge from undeclared node {}", bits, e.0)); }
                continue;
            }
            *out_deg.entry(e.0.clone()).or_insert(0) += 1;
            if !labels.contains_key(&e.1) { bad("edge-endpoint", format!("config {:06b}: edge {} -> {} points to an undeclared node", bits, e.0, e.1)); continue; }
            if !labels.contains_key(&e.0) {
                if !(!cfg.show_deleted && hidden_ok(&e.0)) { bad("edge-endpoint", format!("config {:06b}: edge {} -> {} starts from an undeclared node", bits, e.0, e.1)); }
                continue;
            }
            let lab = if cfg.show_deleted { &labels } else { &full_labels };
            match edge_key(g, if lab.is_empty() { &labels } else { lab }, e) {
                Err(x) => bad("edge-label", format!("config {:06b}: {}", bits, x)),
                Ok(key) => *drawn.entry(key).or_insert(0) += 1,
            }
        }
        if cfg.show_deleted {
            if drawn != expected {
                let missing: Vec<_> = expected.iter().filter(|(k, n)| drawn.get(*k).copied().unwrap_or(0) < **n).map(|(k, _)| k.clone()).take(3).collect();
                let extra: Vec<_> = drawn.iter().filter(|(k, n)| expected.get(*k).copied().unwrap_or(0) < **n).map(|(k, _)| k.clone()).take(3).collect();
                bad("edges-differ", format!("config {:06b}: drawn edges differ from the arcs created through the Problem/Relaxation callbacks: missing {:?}, unexpected {:?}", bits, missing, extra));
            }
            // node census for models whose state identifies the node
            if m.depth_embedded() {
                let mut states: BTreeSet<String> = BTreeSet::new();
                states.insert(format!("{:?}", _t.root.state));
                for (_, _, dst, _) in res.arc_log.iter() { states.insert(format!("{:?}", dst)); }
                for (_, merged) in res.merge_log.iter() { states.insert(format!("{:?}", merged)); }
                let drawn_states: Vec<&String> = labels.values().collect();
                let distinct: BTreeSet<&String> = drawn_states.iter().copied().collect();
                let ds: BTreeSet<String> = distinct.into_iter().cloned().collect();
                if ds != states { bad("node-census", format!("config {:06b}: drawn states {:?} differ from the states created {:?}", bits, ds.symmetric_difference(&states).take(4).collect::<Vec<_>>(), ())); }
            }
        } else {
            for (k, n) in drawn.iter() { if expected.get(k).copied().unwrap_or(0) < *n { bad("edges-differ", format!("config {:06b}: drawn edge {:?} does not correspond to an arc created through the callbacks", bits, k)); break; } }
            if full.is_some() {
                for id in labels.keys() { if !full_ids.contains(id) { bad("node-census", format!("config {:06b}: node {} is drawn without show_deleted but not with it", bits, id)); break; } }
                // a merged node is drawn as a yellow square and is never deleted: show_deleted = false must not hide it
                for id in full_yellow.iter() { if !labels.contains_key(id) { bad("node-census", format!("config {:06b}: merged node {} is hidden although only deleted nodes may be", bits, id)); break; } }
                for id in full_ids.iter() { if id != "terminal" && !labels.contains_key(id) && !full_squares.contains(id) { bad("node-census", format!("config {:06b}: node {} is hidden although it is not a deleted/merged (square) node", bits, id)); break; } }
            }
        }
        // 4. cluster members are declared nodes
        for id in g.cluster_members.iter() { if !labels.contains_key(id) { bad("cluster-member", format!("config {:06b}: cluster member {} is not a declared node", bits, id)); break; } }
        if g.clusters > 0 && !(cfg.show_deleted && cfg.group_merged) { bad("cluster-unrequested", format!("config {:06b}: clusters drawn although not requested", bits)); }
        // 5. terminal node
        let has_terminal = g.nodes.iter().any(|(id, _)| id == "terminal");
        if has_terminal != res.best_value.is_some() {
            bad(if has_terminal { "terminal-for-infeasible" } else { "terminal-missing" }, format!("config {:06b}: terminal node drawn = {} but the diagram's best value is {:?}", bits, has_terminal, res.best_value));
        }
        if has_terminal {
            let srcs: BTreeSet<&String> = term_src.iter().map(|(s, _)| s).collect();
            if srcs.len() != term_src.len() { bad("terminal-edges", format!("config {:06b}: two terminal edges from the same node", bits)); }
            if term_src.is_empty() || !term_src.iter().any(|(_, b)| *b) { bad("terminal-edges", format!("config {:06b}: no (bold) edge into the terminal node", bits)); }
            if res.best_value.is_some() { for (s, _) in term_src.iter() { if out_deg.get(s).copied().unwrap_or(0) > 0 { bad("terminal-edges", format!("config {:06b}: node {} has an edge to the terminal node and to another node", bits, s)); break; } } }
        } else if !term_src.is_empty() { bad("terminal-edges", format!("config {:06b}: edges into an undeclared terminal node", bits)); }
    }
    f
}
