//! E3: drives DecisionDiagram::compile directly ("in isolation": empty cache, empty dominance store) from every
//! reachable exact sub-problem, for the three diagram implementations and the three compilation types, on fresh
//! objects and after prior compilations on the same object.  Serves C06, C07, C08, C12, C13, C20.
use crate::bnb::{fmt_sol, vshort};
use crate::checks::*;
use crate::dot;
use crate::family::*;
use crate::model::*;
use crate::par::*;
use crate::rec::*;
use crate::report::*;
use crate::run::{take_panic_msg, DdKind};
use ddo::*;
use serde_json::{json, Value};
use std::collections::BTreeMap;
use std::panic::{catch_unwind, AssertUnwindSafe};
use std::sync::Arc;
use std::time::{Duration, Instant};

pub trait DdX: DecisionDiagram<State = St> + Default {
    const KIND: DdKind;
    fn viz(&self, cfg: &VizConfig) -> String;
}
impl DdX for DefaultMDDLEL<St> { const KIND: DdKind = DdKind::Lel; fn viz(&self, cfg: &VizConfig) -> String { self.as_graphviz(cfg) } }
impl DdX for DefaultMDDFC<St> { const KIND: DdKind = DdKind::Fc; fn viz(&self, cfg: &VizConfig) -> String { self.as_graphviz(cfg) } }
impl DdX for Pooled<St> { const KIND: DdKind = DdKind::Pooled; fn viz(&self, cfg: &VizConfig) -> String { self.as_graphviz(cfg) } }

#[derive(Clone, Debug, Default)]
pub struct CompRes {
    pub panicked: Option<String>,
    pub err: bool,
    pub completion_exact: bool,
    pub completion_value: Option<isize>,
    pub is_exact: bool,
    pub best_value: Option<isize>,
    pub best_solution: Option<Vec<Decision>>,
    pub best_exact_value: Option<isize>,
    pub best_exact_solution: Option<Vec<Decision>>,
    pub cutset: Vec<SubProblem<St>>,
    pub alarms12: Vec<String>,
    pub alarms13: Vec<String>,
    pub stats: Stats,
    pub arc_log: Vec<(St, Decision, St, isize)>,
    pub relaxed_log: Vec<(St, Decision, St, St, isize, isize)>,
    pub merge_log: Vec<(Vec<St>, St)>,
    pub viz: Vec<(usize, Result<String, String>)>,
}
impl CompRes {
    fn json(&self) -> Value {
        json!({"panicked": self.panicked, "is_exact": self.is_exact, "best_value": self.best_value, "best_solution": self.best_solution.as_ref().map(|s| fmt_sol(s)),
               "best_exact_value": self.best_exact_value, "best_exact_solution": self.best_exact_solution.as_ref().map(|s| fmt_sol(s)),
               "cutset": self.cutset.iter().map(|c| json!({"state": format!("{:?}", c.state), "depth": c.depth, "value": c.value, "ub": c.ub, "path": fmt_sol(&c.path)})).collect::<Vec<_>>()})
    }
    /// the order insensitive public results (history independence)
    fn public(&self) -> (bool, Option<isize>, Option<isize>, Vec<(St, usize, isize, isize)>) {
        let mut cs: Vec<(St, usize, isize, isize)> = self.cutset.iter().map(|c| (*c.state, c.depth, c.value, c.ub)).collect();
        cs.sort();
        (self.is_exact, self.best_value, self.best_exact_value, cs)
    }
}

#[derive(Clone, Debug)]
pub struct Target { pub root: SubProblem<St>, pub ct: CompilationType, pub width: usize, pub lb: isize }
impl Target {
    fn json(&self) -> Value { json!({"root": {"state": format!("{:?}", self.root.state), "state_d": self.root.state.d, "state_x": self.root.state.x, "depth": self.root.depth, "value": self.root.value, "path": fmt_sol(&self.root.path)}, "type": format!("{:?}", self.ct), "width": self.width, "best_lb": self.lb}) }
    pub fn from_json(v: &Value) -> Target {
        let r = &v["root"];
        let path = r["path"].as_array().unwrap().iter().map(|p| Decision { variable: Variable(p[0].as_u64().unwrap() as usize), value: p[1].as_i64().unwrap() as isize }).collect();
        Target { root: SubProblem { state: Arc::new(St { d: r["state_d"].as_u64().unwrap() as u8, x: r["state_x"].as_u64().unwrap() as u32 }), value: r["value"].as_i64().unwrap() as isize, path, ub: isize::MAX, depth: r["depth"].as_u64().unwrap() as usize },
                 ct: match v["type"].as_str().unwrap() { "Exact" => CompilationType::Exact, "Restricted" => CompilationType::Restricted, _ => CompilationType::Relaxed }, width: v["width"].as_u64().unwrap() as usize, lb: v["best_lb"].as_i64().unwrap() as isize }
    }
}

pub fn viz_config(bits: usize) -> VizConfig {
    VizConfig { show_value: bits & 1 != 0, show_locb: bits & 2 != 0, show_rub: bits & 4 != 0, show_threshold: bits & 8 != 0, show_deleted: bits & 16 != 0, group_merged: bits & 32 != 0 }
}

pub fn compile_one<D: DdX>(dd: &mut D, m: &dyn Model, t: &Target, log: bool, viz: &[usize]) -> CompRes { compile_one_opt(dd, m, t, log, viz, true) }
/// `drain = false`: the cut-set is left in the diagram (what the solvers do when the diagram reports exactness)
pub fn compile_one_opt<D: DdX>(dd: &mut D, m: &dyn Model, t: &Target, log: bool, viz: &[usize], drain: bool) -> CompRes {
    let rec = RecModel(m);
    let cache = EmptyCache::<St>::new();
    let dom = EmptyDominanceChecker::<St>::default();
    let cut = NoCutoff;
    let input = CompilationInput { comp_type: t.ct, problem: &rec, relaxation: &rec, ranking: &rec, cutoff: &cut, max_width: t.width, residual: &t.root, best_lb: t.lb, cache: &cache, dominance: &dom };
    proto_reset(true, log, m.all_impacted());
    let mut res = CompRes::default();
    PROTO.with(|p| p.borrow_mut().begin(t.ct, t.width, t.root.depth));
    let r = catch_unwind(AssertUnwindSafe(|| dd.compile(&input)));
    PROTO.with(|p| p.borrow_mut().end());
    match r {
        Err(_) => { res.panicked = Some(take_panic_msg()); }
        Ok(Err(_)) => { res.err = true; }
        Ok(Ok(c)) => {
            res.completion_exact = c.is_exact;
            res.completion_value = c.best_value;
            let q = catch_unwind(AssertUnwindSafe(|| {
                let mut res2 = CompRes::default();
                res2.is_exact = dd.is_exact();
                res2.best_value = dd.best_value();
                res2.best_solution = dd.best_solution();
                res2.best_exact_value = dd.best_exact_value();
                res2.best_exact_solution = dd.best_exact_solution();
                res2
            }));
            match q {
                Err(_) => res.panicked = Some(format!("accessor panicked: {}", take_panic_msg())),
                Ok(r2) => { res.is_exact = r2.is_exact; res.best_value = r2.best_value; res.best_solution = r2.best_solution; res.best_exact_value = r2.best_exact_value; res.best_exact_solution = r2.best_exact_solution; }
            }
            for bits in viz {
                let cfg = viz_config(*bits);
                let v = catch_unwind(AssertUnwindSafe(|| dd.viz(&cfg)));
                res.viz.push((*bits, v.map_err(|_| take_panic_msg())));
            }
            if res.panicked.is_none() && drain {
                let mut cs = vec![];
                let d = catch_unwind(AssertUnwindSafe(|| dd.drain_cutset(|c| cs.push(c))));
                if d.is_err() { res.panicked = Some(format!("drain_cutset panicked: {}", take_panic_msg())); }
                res.cutset = cs;
            }
        }
    }
    PROTO.with(|p| {
        let mut p = p.borrow_mut();
        res.alarms12 = std::mem::take(&mut p.alarms12);
        res.alarms13 = std::mem::take(&mut p.alarms13);
        res.stats = p.stats.clone();
        if log { res.arc_log = std::mem::take(&mut p.arc_log); res.relaxed_log = std::mem::take(&mut p.relaxed_log); res.merge_log = std::mem::take(&mut p.merge_log); }
    });
    res
}

pub struct Finding { pub prop: &'static str, pub sig: String, pub what: String }

/// Oracle checks of one compilation
pub fn judge(m: &dyn Model, kind: DdKind, t: &Target, res: &CompRes) -> Vec<Finding> {
    let mut f = vec![];
    let k = format!("{:?}", kind).to_lowercase();
    let ctn = format!("{:?}", t.ct).to_lowercase();
    let primary = match t.ct { CompilationType::Relaxed => "C06", _ => "C07" };
    if let Some(p) = &res.panicked {
        f.push(Finding { prop: primary, sig: format!("dd:panic:{}:{}", k, ctn), what: format!("compile panicked: {}", p) });
        return f;
    }
    if res.err { f.push(Finding { prop: primary, sig: format!("dd:err-without-cutoff:{}", k), what: "compile returned Err although the cut-off never fires".to_string() }); return f; }
    let h = m.hstar(t.root.depth, t.root.state.as_ref());
    let opt = h.map(|h| h + t.root.value);
    let beats = opt.map_or(false, |o| o > t.lb);
    if res.completion_exact != res.is_exact || res.completion_value != res.best_value {
        f.push(Finding { prop: primary, sig: format!("dd:completion-incoherent:{}:{}", k, ctn), what: format!("Completion {{is_exact: {}, best_value: {:?}}} but is_exact()={} best_value()={:?}", res.completion_exact, res.completion_value, res.is_exact, res.best_value) });
    }
    let replay = |sol: &Option<Vec<Decision>>| -> Result<Option<isize>, String> { match sol { None => Ok(None), Some(s) => m.replay_full(s).map(Some) } };
    match t.ct {
        CompilationType::Relaxed => {
            // (a) upper bound on every completion which beats the incumbent
            if beats && res.best_value.map_or(true, |v| v < opt.unwrap()) {
                f.push(Finding { prop: "C06", sig: format!("relaxed:not-an-upper-bound:{}", k), what: format!("relaxed best value {:?} < sub-problem optimum {:?} (incumbent {})", res.best_value, opt, t.lb) });
            }
            // (b) truthful exactness
            if res.is_exact {
                match replay(&res.best_exact_solution) {
                    Err(e) => f.push(Finding { prop: "C06", sig: format!("relaxed:exact-solution-infeasible:{}", k), what: format!("exact relaxed diagram: best exact solution {:?} is infeasible: {}", res.best_exact_solution.as_ref().map(|s| fmt_sol(s)), e) }),
                    Ok(v) => { if v != res.best_exact_value { f.push(Finding { prop: "C06", sig: format!("relaxed:exact-solution-value:{}", k), what: format!("best exact solution replays to {:?} but best_exact_value() = {:?}", v, res.best_exact_value) }); } }
                }
                if let Some(v) = res.best_exact_value { if opt.map_or(true, |o| v > o) { f.push(Finding { prop: "C06", sig: format!("relaxed:exact-value-above-opt:{}", k), what: format!("best exact value {} > sub-problem optimum {:?}", v, opt) }); } }
                if beats && res.best_exact_value != opt { f.push(Finding { prop: "C06", sig: format!("relaxed:claims-exact-but-misses-opt:{}", k), what: format!("relaxed diagram claims to be exact with best exact value {:?} but the sub-problem optimum is {:?} (incumbent {})", res.best_exact_value, opt, t.lb) }); }
            } else {
                f.extend(judge_cutset(m, kind, t, res, opt));
            }
            // an exact value is always a feasible one
            if !res.is_exact {
                if let (Some(v), Ok(r)) = (res.best_exact_value, replay(&res.best_exact_solution)) { if r != Some(v) { f.push(Finding { prop: "C06", sig: format!("relaxed:exact-solution-value:{}", k), what: format!("best exact solution replays to {:?} but best_exact_value() = {}", r, v) }); } }
                if let (Some(_), Err(e)) = (res.best_exact_value, replay(&res.best_exact_solution)) { f.push(Finding { prop: "C06", sig: format!("relaxed:exact-solution-infeasible:{}", k), what: format!("best exact solution is infeasible: {}", e) }); }
            }
        }
        CompilationType::Restricted | CompilationType::Exact => {
            let nm = if t.ct == CompilationType::Exact { "exact" } else { "restricted" };
            if let Some(v) = res.best_value { if opt.map_or(true, |o| v > o) { f.push(Finding { prop: "C07", sig: format!("{}:value-above-opt:{}", nm, k), what: format!("{} best value {} > sub-problem optimum {:?}", nm, v, opt) }); } }
            match replay(&res.best_solution) {
                Err(e) => f.push(Finding { prop: "C07", sig: format!("{}:solution-infeasible:{}", nm, k), what: format!("best solution {:?} infeasible: {}", res.best_solution.as_ref().map(|s| fmt_sol(s)), e) }),
                Ok(v) => { if v != res.best_value { f.push(Finding { prop: "C07", sig: format!("{}:solution-value:{}", nm, k), what: format!("best solution replays to {:?} but best_value() = {:?}", v, res.best_value) }); } }
            }
            if t.ct == CompilationType::Exact && !res.is_exact { f.push(Finding { prop: "C07", sig: format!("exact:not-exact:{}", k), what: "exact compilation reports is_exact() = false".to_string() }); }
            if res.is_exact && beats && res.best_value != opt { f.push(Finding { prop: "C07", sig: format!("{}:claims-exact-but-misses-opt:{}", nm, k), what: format!("{} diagram is exact with value {:?} but the sub-problem optimum is {:?} (incumbent {})", nm, res.best_value, opt, t.lb) }); }
            if res.best_exact_value.is_some() && res.best_exact_value != res.best_value && res.is_exact { f.push(Finding { prop: "C07", sig: format!("{}:exact-value-differs:{}", nm, k), what: format!("exact {} diagram: best_exact_value {:?} != best_value {:?}", nm, res.best_exact_value, res.best_value) }); }
        }
    }
    for a in &res.alarms12 { f.push(Finding { prop: "C12", sig: format!("proto:{}:{}:{}", k, ctn, a.split_whitespace().next().unwrap_or("")), what: a.clone() }); }
    for a in &res.alarms13 { f.push(Finding { prop: "C13", sig: format!("width:{}:{}", k, ctn), what: a.clone() }); }
    f
}

fn judge_cutset(m: &dyn Model, kind: DdKind, t: &Target, res: &CompRes, opt: Option<isize>) -> Vec<Finding> {
    let mut f = vec![];
    let k = format!("{:?}", kind).to_lowercase();
    for c in res.cutset.iter() {
        // (i) exact
        match m.replay_prefix(&c.path, c.depth) {
            Err(e) => f.push(Finding { prop: "C08", sig: format!("cutset:path-infeasible:{}", k), what: format!("cut-set node {:?}@{} path {:?}: {}", c.state, c.depth, fmt_sol(&c.path), e) }),
            Ok((s, v)) => {
                if s != *c.state || v != c.value { f.push(Finding { prop: "C08", sig: format!("cutset:not-exact:{}", k), what: format!("cut-set node claims state {:?} value {} at depth {} but its path {:?} leads to {:?} with value {}", c.state, c.value, c.depth, fmt_sol(&c.path), s, v) }); }
            }
        }
        // (ii) progress
        if c.depth <= t.root.depth || (*c.state == *t.root.state && c.depth == t.root.depth) {
            let own = *c.state == *t.root.state && c.depth == t.root.depth;
            f.push(Finding { prop: "C08", sig: format!("cutset:{}:{}{}", if own { "own-root" } else { "not-deeper" }, k, if m.has_long_arcs() { ":longarcs" } else { "" }), what: format!("cut-set node {:?}@{} is not strictly deeper than / differs not from the root {:?}@{}", c.state, c.depth, t.root.state, t.root.depth) });
        }
        // (iii) valid bound
        if let Some(hc) = m.hstar(c.depth, c.state.as_ref()) {
            let best = c.value + hc;
            if best > t.lb && c.ub < best { f.push(Finding { prop: "C08", sig: format!("cutset:ub-too-small:{}", k), what: format!("cut-set node {:?}@{} value {} has ub {} but its best completion is worth {} (incumbent {})", c.state, c.depth, c.value, c.ub, best, t.lb) }); }
        }
    }
    // (iv) coverage
    if let Some(o) = opt {
        let bar = t.lb.max(res.best_exact_value.unwrap_or(isize::MIN));
        if o > bar {
            for pi in m.completions(t.root.depth, t.root.state.as_ref()) {
                let val = pi.value + t.root.value;
                if val > bar {
                    let covered = res.cutset.iter().any(|c| m.passes_through(&t.root, &pi, c).map_or(false, |pre| c.value >= t.root.value + pre));
                    if !covered {
                        f.push(Finding { prop: "C08", sig: format!("cutset:does-not-cover:{}", k), what: format!("completion {:?} of value {} beats the incumbent {} and the best exact value {:?} but no cut-set node lies on it", fmt_sol(&pi.decisions), val, t.lb, res.best_exact_value) });
                        break;
                    }
                }
            }
        }
    }
    f
}

// ------------------------------------------------------------------------------------------------------------
#[derive(Default)]
pub struct Agg {
    pub instances: u64,
    pub roots: u64,
    pub compilations: u64,
    pub relaxed: u64,
    pub relaxed_inexact: u64,
    pub relaxed_exact_claims: u64,
    pub relaxed_exact_with_merge: u64,
    pub restricted: u64,
    pub restricted_inexact: u64,
    pub exact: u64,
    pub cutset_nodes: u64,
    pub history_pairs: u64,
    pub history_differs: u64,
    pub merges: u64,
    pub relax_calls: u64,
    pub layers_checked: u64,
    pub layers_at_width: u64,
    pub infeasible_roots: u64,
    pub viz_texts: u64,
    pub viz_with_deleted: u64,
    pub viz_infeasible: u64,
    pub callbacks: u64,
    pub recycled: u64,
    pub hits: BTreeMap<String, u64>,
    pub samples: Vec<Value>,
}
impl Agg {
    fn merge(&mut self, o: Agg) {
        self.instances += o.instances; self.roots += o.roots; self.compilations += o.compilations; self.relaxed += o.relaxed; self.relaxed_inexact += o.relaxed_inexact;
        self.relaxed_exact_claims += o.relaxed_exact_claims; self.relaxed_exact_with_merge += o.relaxed_exact_with_merge; self.restricted += o.restricted; self.restricted_inexact += o.restricted_inexact;
        self.exact += o.exact; self.cutset_nodes += o.cutset_nodes; self.history_pairs += o.history_pairs; self.history_differs += o.history_differs; self.merges += o.merges; self.relax_calls += o.relax_calls;
        self.layers_checked += o.layers_checked; self.layers_at_width += o.layers_at_width; self.infeasible_roots += o.infeasible_roots; self.viz_texts += o.viz_texts; self.viz_with_deleted += o.viz_with_deleted;
        self.viz_infeasible += o.viz_infeasible; self.callbacks += o.callbacks; self.recycled += o.recycled;
        for (k, v) in o.hits { *self.hits.entry(k).or_insert(0) += v; }
        for s in o.samples { if self.samples.len() < 5 { self.samples.push(s); } }
    }
}

#[derive(Clone)]
pub struct Plan {
    pub fam: Fam,
    pub variants: Vec<Variant>,
    pub rotate: bool,
    pub widths: Vec<usize>,
    pub history: bool,
    pub viz: bool,
    pub limit: Option<u64>,
}

fn targets(m: &dyn Model, widths: &[usize], agg: &mut Agg) -> Vec<Target> {
    let mut out = vec![];
    for r in m.reachable() {
        let mut prefixes = vec![r.best.clone()];
        if r.worst.0 != r.best.0 { prefixes.push(r.worst.clone()); }
        for (value, path) in prefixes {
            let root = SubProblem { state: Arc::new(r.state), value, path, ub: isize::MAX, depth: r.depth };
            agg.roots += 1;
            let opt = m.hstar(r.depth, &r.state).map(|h| h + value);
            if opt.is_none() { agg.infeasible_roots += 1; }
            let lbs: Vec<isize> = match opt { Some(o) => vec![isize::MIN, o - 1, o, o + 1], None => vec![isize::MIN, value] };
            for ct in [CompilationType::Exact, CompilationType::Restricted, CompilationType::Relaxed] {
                for w in widths.iter() {
                    if ct == CompilationType::Exact && *w != widths[0] && *w != *widths.last().unwrap() { continue; }
                    for lb in lbs.iter() { out.push(Target { root: root.clone(), ct, width: *w, lb: *lb }); }
                }
            }
        }
    }
    out
}

fn run_kind<D: DdX>(rep: &Reporter, focus: &[&str], plan: &Plan, m: &dyn Model, id: &Value, ts: &[Target], agg: &mut Agg) {
    let mut dd = D::default();
    let total_rank = m.variant().rank != Rank::Equal;
    // representative prior compilations (history dimension)
    let hist: Vec<Target> = if plan.history {
        let reach = m.reachable();
        let first = reach.first().unwrap();
        let deepest = reach.iter().filter(|r| r.depth < m.nb_variables().max(1)).last().unwrap_or(first);
        let mut h = vec![];
        for r in [first, deepest] {
            let root = SubProblem { state: Arc::new(r.state), value: r.best.0, path: r.best.1.clone(), ub: isize::MAX, depth: r.depth };
            for ct in [CompilationType::Exact, CompilationType::Restricted, CompilationType::Relaxed] { for w in [1usize, 64] { h.push(Target { root: root.clone(), ct, width: w, lb: isize::MIN }); } }
        }
        h
    } else { vec![] };
    for (ti, t) in ts.iter().enumerate() {
        let do_viz = plan.viz && (t.lb == isize::MIN || ti % 4 == 1);
        let vizbits: Vec<usize> = if do_viz { (0..64).collect() } else { vec![] };
        let res = compile_one(&mut dd, m, t, do_viz, &vizbits);
        if res.panicked.is_some() { dd = D::default(); }
        agg.compilations += 1;
        agg.merges += res.stats.merges as u64; agg.relax_calls += res.stats.relax_calls as u64; agg.layers_checked += res.stats.layers_checked as u64;
        if res.stats.max_layer_expansions >= t.width { agg.layers_at_width += 1; }
        agg.callbacks += (res.stats.relax_calls + res.stats.merges) as u64;
        agg.recycled += res.stats.recycled_candidates as u64;
        agg.cutset_nodes += res.cutset.len() as u64;
        match t.ct {
            CompilationType::Relaxed => { agg.relaxed += 1; if !res.is_exact { agg.relaxed_inexact += 1; } else { agg.relaxed_exact_claims += 1; if res.stats.merges > 0 { agg.relaxed_exact_with_merge += 1; } } }
            CompilationType::Restricted => { agg.restricted += 1; if !res.is_exact { agg.restricted_inexact += 1; } }
            CompilationType::Exact => agg.exact += 1,
        }
        if agg.samples.len() < 2 && t.ct == CompilationType::Relaxed && !res.is_exact && res.cutset.len() >= 2 {
            agg.samples.push(json!({"instance": m.describe(), "diagram": format!("{:?}", D::KIND), "target": t.json(), "result": res.json()}));
        }
        let mut fs = judge(m, D::KIND, t, &res);
        if do_viz { fs.extend(dot::judge_viz(m, D::KIND, t, &res, agg)); }
        // history independence
        if plan.history && res.panicked.is_none() && (t.width <= 2) && (t.lb == isize::MIN || ti % 3 == 0) {
            for (hi, h) in hist.iter().enumerate() {
                // the prior compilation leaves its cut-set undrained, as the solvers do for a diagram which claims exactness
                let _ = compile_one_opt(&mut dd, m, h, false, &[], false);
                let again = compile_one(&mut dd, m, t, false, &[]);
                agg.compilations += 2;
                agg.history_pairs += 1;
                let same = !total_rank || again.public() == res.public();
                if again.public() != res.public() { agg.history_differs += 1; }
                let mut hf = judge(m, D::KIND, t, &again);
                for x in hf.iter_mut() { x.what = format!("{} [after prior compilation #{} on the same object]", x.what, hi); }
                fs.extend(hf);
                if !same {
                    let p = match t.ct { CompilationType::Relaxed => if again.public().3 != res.public().3 && again.public().0 == res.public().0 && again.public().1 == res.public().1 { "C08" } else { "C06" }, _ => "C07" };
                    fs.push(Finding { prop: p, sig: format!("history:{:?}:{:?}", D::KIND, t.ct).to_lowercase(), what: format!("after prior compilation #{} ({}) on the same object the public results differ from those of a fresh object: {:?} vs {:?}", hi, h.json(), again.public(), res.public()) });
                }
                if again.panicked.is_some() { dd = D::default(); }
            }
            // leave the object in a used state for the next target (more histories)
        }
        for x in fs {
            *agg.hits.entry(format!("{}:{}", x.prop, x.sig)).or_insert(0) += 1;
            if focus.contains(&x.prop) {
                rep.violation(x.sig, x.what, json!({"engine": "dd", "instance": id, "diagram": format!("{:?}", D::KIND), "target": t.json(), "model": m.describe(), "result": res.json(), "monitor_property": x.prop}));
            }
        }
    }
}

pub fn run_instance(rep: &Reporter, focus: &[&str], plan: &Plan, idx: u64, agg: &mut Agg) {
    let vars: Vec<Variant> = if plan.rotate { vec![plan.variants[(idx % plan.variants.len() as u64) as usize]] } else { plan.variants.clone() };
    for var in vars {
        let m = plan.fam.build(idx, var);
        let m: &dyn Model = m.as_ref();
        agg.instances += 1;
        let id = plan.fam.id_json(idx, var);
        let ts = targets(m, &plan.widths, agg);
        run_kind::<DefaultMDDLEL<St>>(rep, focus, plan, m, &id, &ts, agg);
        run_kind::<DefaultMDDFC<St>>(rep, focus, plan, m, &id, &ts, agg);
        run_kind::<Pooled<St>>(rep, focus, plan, m, &id, &ts, agg);
    }
}

fn mkplan(name: &str, variants: Vec<Variant>, rotate: bool, widths: &[usize], history: bool, viz: bool, limit: Option<u64>) -> Plan {
    Plan { fam: family(name), variants, rotate, widths: widths.to_vec(), history, viz, limit }
}

fn plans(prop: &str, th: bool) -> Vec<Plan> {
    let w4 = [1usize, 2, 3, 4];
    let w5 = [1usize, 2, 3, 4, 5];
    let viz = prop == "C20";
    let hist = matches!(prop, "C06" | "C07" | "C08");
    let w: &[usize] = if prop == "C13" { &w5 } else { &w4 };
    let mut irr = variants_irr();
    irr.truncate(2);
    let sp: Vec<Variant> = variants_sp().into_iter().filter(|v| v.rank != Rank::Equal).collect();
    if viz {
        let mut p = vec![
            mkplan("TM-0a", variants_ca(), false, &w4, false, true, None),
            mkplan("TM-0b", variants_ca(), true, &w4, false, true, None),
            mkplan("TM-0c", variants_ca(), true, &w4, false, true, Some(if th { 2401 } else { 300 })),
            mkplan("TM-B4", variants_ca(), true, &w4, false, true, Some(if th { 2000 } else { 60 })),
            mkplan("TM-N0.1", variants_ca(), true, &w4, false, true, Some(if th { 301 } else { 30 })),
            mkplan("TM-N1.1", variants_ca(), true, &w4, false, true, Some(if th { 301 } else { 30 })),
            mkplan("SP-3", sp.clone(), true, &w4, false, true, Some(if th { 216 } else { 40 })),
            mkplan("TM-N1.0irr", irr.clone(), true, &w4, false, true, Some(if th { 1000 } else { 30 })),
        ];
        if th { p.push(mkplan("TM-N3.1", variants_ca(), true, &w4, false, true, Some(200))); p.push(mkplan("SP-4", sp, true, &w4, false, true, Some(500))); }
        return p;
    }
    let mut p = vec![
        mkplan("TM-0a", variants_ca(), false, w, hist, false, None),
        mkplan("TM-0b", variants_ca(), false, w, hist, false, None),
        mkplan("TM-0c", variants_ca(), true, w, hist, false, None),
        mkplan("TM-A", variants_ca(), true, w, false, false, Some(if th { 1_048_576 } else { 20_000 })),
        mkplan("TM-B4", variants_ca(), true, w, hist, false, Some(if th { 16384 } else { 1500 })),
        mkplan("TM-N0.1", variants_ca(), true, w, hist, false, None),
        mkplan("TM-N1.1", variants_ca(), true, w, hist, false, None),
        // every instance of the two main neighbourhoods under EVERY variant (no rotation), fresh-object space only
        mkplan("TM-N0.1", variants_ca(), false, w, false, false, None),
        mkplan("TM-N1.1", variants_ca(), false, w, false, false, None),
        mkplan("TM-N2.1", variants_ca(), true, w, false, false, Some(if th { 391 } else { 100 })),
        mkplan("TM-N3.1", variants_ca(), true, w, false, false, Some(if th { 451 } else { 100 })),
        mkplan("SP-3", sp.clone(), false, w, hist, false, None),
        mkplan("SP-4", sp.clone(), true, w, false, false, Some(if th { 5184 } else { 2500 })),
        mkplan("KP-3", variants_kp(), true, w, hist, false, Some(if th { 5103 } else { 2500 })),
        mkplan("KP-4", variants_kp(), true, w, false, false, Some(if th { 45927 } else { 4000 })),
        mkplan("KPZ-3", variants_kp(), false, w, hist, false, Some(if th { 1512 } else { 400 })),
        mkplan("KPZ-4", variants_kp(), true, w, false, false, None),
    ];
    if prop != "C13" {
        p.push(mkplan("TM-N0.0irr", irr.clone(), true, w, hist, false, Some(if th { 1351 } else { 300 })));
        p.push(mkplan("TM-N1.0irr", irr.clone(), true, w, false, false, Some(if th { 1351 } else { 300 })));
        p.push(mkplan("TM-B4irr", irr.clone(), true, w, false, false, Some(if th { 400_000 } else { 8000 })));
    }
    if th {
        p.push(mkplan("TM-B4", variants_ca(), false, w, false, false, Some(4000)));
        p.push(mkplan("TM-B4n", variants_ca(), true, w, false, false, Some(300_000)));
        p.push(mkplan("TM-D3", variants_ca(), true, w, false, false, None));
        p.push(mkplan("TM-N0.2", variants_ca(), true, w, false, false, None));
        p.push(mkplan("TM-N1.2", variants_ca(), true, w, false, false, None));
    }
    p
}

pub fn check(prop: &str, tier: &str) -> i32 {
    let rep = Reporter::new(prop, tier);
    let th = rep.thorough();
    let deadline = Some(Instant::now() + Duration::from_secs(cap_secs(if th { 1500 } else { 45 })));
    let focus = [match prop { "C06" => "C06", "C07" => "C07", "C08" => "C08", "C12" => "C12", "C13" => "C13", _ => "C20" }];
    let mut plans = plans(prop, th);
    // diagnostic only: VERIF_DD_ONLY=<family> restricts the run to one family, completely enumerated
    if let Ok(only) = std::env::var("VERIF_DD_ONLY") { plans.retain(|p| p.fam.name() == only); for p in plans.iter_mut() { p.limit = None; } }
    // cheapest scopes first: a wall clock cap (loaded machine) then only cuts the largest enumerations
    plans.sort_by_key(|p| p.limit.map_or(p.fam.count(), |l| l.min(p.fam.count())) * if p.rotate { 1 } else { p.variants.len() as u64 } * if p.history { 8 } else { 1 });
    let mut total = Agg::default();
    let mut scopes = vec![];
    let mut complete = true;
    for plan in plans.iter() {
        let n = plan.limit.map_or(plan.fam.count(), |l| l.min(plan.fam.count()));
        let t0 = Instant::now();
        let chunk = (n / (nthreads() as u64 * 8)).clamp(1, 256);
        let res = par_run::<Agg, _>(n, chunk, deadline, rep.seed, |i, agg| run_instance(&rep, &focus, plan, i, agg));
        let mut comps = 0;
        for l in res.locals { comps += l.compilations; total.merge(l); }
        if res.done < n { complete = false; }
        scopes.push(json!({"family": plan.fam.name(), "family_size": plan.fam.count(), "instances_planned": n, "instances_done": res.done, "complete": res.done == n,
            "variants": if plan.rotate { json!(format!("rotating: instance i runs under variant i mod {} of {:?}", plan.variants.len(), plan.variants.iter().map(vshort).collect::<Vec<_>>())) } else { json!(plan.variants.iter().map(vshort).collect::<Vec<_>>()) },
            "widths": plan.widths, "history_dimension": plan.history, "viz": plan.viz, "compilations": comps, "wall_s": t0.elapsed().as_secs_f64()}));
    }
    let (evals, nontrivial, rule): (u64, u64, &str) = match prop {
        "C06" => (total.relaxed, total.relaxed_inexact + total.relaxed_exact_with_merge, "every reachable exact sub-problem (best and worst prefix) of every instance x widths x incumbents {none, opt-1, opt, opt+1} x {LEL, frontier, pooled}, relaxed compilation through the public CompilationInput with EmptyCache/EmptyDominanceChecker, on a used object, plus the history dimension (12 representative prior compilations before the target, results must equal the first ones); oracle (a) best_value >= every completion beating the incumbent, (b) is_exact => best exact solution feasible with exactly best_exact_value <= opt, == opt when opt beats the incumbent; non-trivial = relaxed compilations which merged (inexact, or exact claims despite a merge)"),
        "C07" => (total.restricted + total.exact, total.restricted_inexact + total.exact, "same space as C06, restricted and exact compilations: value <= sub-problem optimum, best solution replays feasibly to exactly the value, exact claim => optimum (when it beats the incumbent), exact mode => optimum for every width; non-trivial = restricted compilations which really dropped nodes + all exact-mode compilations"),
        "C08" => (total.relaxed, total.relaxed_inexact, "same space as C06 restricted to inexact relaxed compilations (LEL and frontier cut-sets on Mdd, frontier on Pooled, models with long arcs included): every sub-problem handed to the drain_cutset callback is (i) exact by model-side replay of its path, (ii) strictly deeper than and different from the root, (iii) ub >= its best completion when that beats the incumbent, (iv) every completion of the root beating incumbent and best exact value passes through a handed-out node with at least its prefix value; evaluations = relaxed compilations, non-trivial = the inexact ones (whose cut-set is examined; cutset_nodes_checked gives the number of handed-out sub-problems)"),
        "C12" => (total.compilations, total.callbacks, "every callback of every compilation of the C06 space (3 diagrams x 3 compilation types) goes through a protocol automaton around Problem/Relaxation: transition/transition_cost/relax arguments coherent (dst = transition(src,d), d in the domain enumerated for src, cost = the recorded cost of that arc, merged = last merge result over >= 2 states of the layer containing dst), domains only for the variable chosen by next_variable and states of that layer, depth argument = layers below the problem root; non-trivial count = merge + relax callbacks checked (the rarely exercised part of the protocol)"),
        "C13" => (total.layers_checked, total.layers_at_width, "every layer of every restricted/relaxed compilation of the C06 space with widths 1..5 on models where every state is impacted by every variable: number of states expanded (domain enumerations between two next_variable calls) <= max_width, except root layer and first layer below it in relaxed mode; plus the exhaustive grid of width combinators; non-trivial = compilations in which some layer expanded >= max_width states (the bound is tight there)"),
        _ => (total.viz_texts, total.viz_with_deleted, "every compilation of the listed scopes x ALL 64 VizConfig flag combinations x 3 diagrams: as_graphviz under catch_unwind, DOT reader accepts the text, node ids unique, labels hold exactly the requested fields, drawn edges (mapped through node labels) == multiset of arcs recorded from the Problem/Relaxation callbacks when show_deleted, sub-graph of it otherwise with no edge to/from a missing node, terminal node <=> feasible diagram with one edge per terminal-layer node; non-trivial = texts of diagrams containing deleted/merged nodes"),
    };
    #[allow(unused_mut)]
    let mut cov = json!({
        "evaluations": evals, "distinct_nontrivial": nontrivial, "rule": rule, "samples": total.samples, "exhaustive": complete, "scopes": scopes,
        "model_instances": total.instances, "sub_problem_roots": total.roots, "infeasible_roots": total.infeasible_roots, "compilations": total.compilations,
        "relaxed": total.relaxed, "relaxed_inexact": total.relaxed_inexact, "relaxed_exact_claims": total.relaxed_exact_claims, "relaxed_exact_claims_despite_merge": total.relaxed_exact_with_merge,
        "restricted": total.restricted, "restricted_inexact": total.restricted_inexact, "exact_mode": total.exact, "cutset_nodes_checked": total.cutset_nodes,
        "history_pairs": total.history_pairs, "history_pairs_with_different_public_results": total.history_differs, "merges": total.merges, "merges_whose_result_equals_a_kept_node_of_the_layer (recycling)": total.recycled, "relax_calls": total.relax_calls,
        "layers_checked_for_width": total.layers_checked, "viz_texts": total.viz_texts, "viz_infeasible_diagrams": total.viz_infeasible,
        "monitor_hits_all_properties": total.hits,
        "caps_hit": if complete { json!([]) } else { json!(["wall clock cap of the tier: see scopes[*].instances_done"]) },
    });
    if prop == "C13" { cov["width_combinator_grid"] = crate::gap::width_grid(&rep); }
    if prop == "C12" || prop == "C13" {
        // the same automaton / counter on every compilation triggered by real solver runs (second level compilations
        // start from sub-problems produced by the library itself: their depth and path are checked too), long arcs included
        use crate::bnb::{Mode, Plan as BPlan};
        use crate::run::Cfg;
        let cfgs = Cfg::full(&[1, 2, 3]);
        let mk = |name: &str, variants: Vec<Variant>, rotate: bool, limit: Option<u64>| BPlan { fam: family(name), variants, rotate, cfgs: cfgs.clone(), mode: Mode::Plain, record: true, limit, par1: false };
        let mut bp = vec![
            mk("TM-B4", variants_ca(), true, Some(if th { 16384 } else { 3000 })),
            mk("TM-N0.1", variants_ca(), true, None),
            mk("TM-N1.1", variants_ca(), true, None),
            mk("SP-4", variants_sp(), true, Some(if th { 5184 } else { 1500 })),
            mk("KP-3", variants_kp(), true, Some(2000)),
        ];
        if prop == "C12" {
            bp.push(mk("TM-N0.0irr", variants_irr(), true, None));
            bp.push(mk("TM-N1.0irr", variants_irr(), true, None));
            bp.push(mk("TM-N2.0irr", variants_irr(), true, None));
            bp.push(mk("TM-N3.0irr", variants_irr(), true, None));
            bp.push(mk("TM-B4irr", variants_irr(), true, Some(if th { 300_000 } else { 30_000 })));
        }
        // and in the worker thread of the PARALLEL solver (one worker: deterministic; the recorders are switched on inside
        // the worker by the width-heuristic wrapper, rec.rs): the same automaton, the sub-problem depth check and the
        // "compiled with the width the heuristic answered" check on what parallel.rs hands to the diagrams
        let mk1 = |name: &str, variants: Vec<Variant>, limit: Option<u64>| BPlan { fam: family(name), variants, rotate: true, cfgs: Cfg::full(&[1, 2]), mode: Mode::Plain, record: true, limit, par1: true };
        bp.push(mk1("TM-N0.1", variants_ca(), None));
        bp.push(mk1("TM-B4", variants_ca(), Some(if th { 8192 } else { 600 })));
        bp.push(mk1("KP-3", variants_kp(), Some(if th { 2000 } else { 300 })));
        if prop == "C12" { bp.push(mk1("TM-N0.0irr", variants_irr(), None)); }
        let dl = Some(Instant::now() + Duration::from_secs(cap_secs(if th { 600 } else { 20 })));
        let (agg, sc, ok) = crate::bnb::run_plans(&rep, &[prop], &bp, dl);
        cov["solver_runs_part"] = json!({"scopes": sc, "complete": ok, "runs": agg.runs, "runs_with_2+_subproblems": agg.nontrivial, "restricted_compilations": agg.restricted, "relaxed_compilations": agg.relaxed, "merges": agg.merges, "relax_calls": agg.relax_calls, "layers_checked_for_width": agg.layers_checked, "monitor_hits_all_properties": agg.monitor_hits});
        if !ok { cov["exhaustive"] = json!(false); }
    }
    rep.finish("exploration", cov, vec![
        "compilations in isolation: EmptyCache, EmptyDominanceChecker, NoCutoff".to_string(),
        "oracle: exact value-to-go by backward DP / subset enumeration; completions enumerated exhaustively (<= 243 per root)".to_string(),
        "history independence is compared on order-insensitive public results and only under total state rankings (hash-map iteration order after clear() may legitimately change tie-breaks)".to_string(),
    ])
}

/// re-executes one recorded compilation (replay files of this engine): fresh object
pub fn replay(v: &Value) -> i32 {
    let (fam, idx, var) = from_id(&v["instance"]);
    let m = fam.build(idx, var);
    let t = Target::from_json(&v["target"]);
    let kind = v["diagram"].as_str().unwrap_or("Lel");
    fn go<D: DdX>(m: &dyn Model, t: &Target) -> (CompRes, Vec<Finding>) {
        let mut dd = D::default();
        let viz: Vec<usize> = (0..64).collect();
        let res = compile_one(&mut dd, m, t, true, &viz);
        let mut fs = judge(m, D::KIND, t, &res);
        let mut agg = Agg::default();
        fs.extend(dot::judge_viz(m, D::KIND, t, &res, &mut agg));
        (res, fs)
    }
    let (res, fs) = match kind { "Lel" => go::<DefaultMDDLEL<St>>(m.as_ref(), &t), "Fc" => go::<DefaultMDDFC<St>>(m.as_ref(), &t), _ => go::<Pooled<St>>(m.as_ref(), &t) };
    println!("model: {}", m.describe());
    println!("target: {}", t.json());
    println!("result: {}", res.json());
    if let Some((_, Ok(txt))) = res.viz.iter().find(|(b, _)| *b == 31) { println!("--- as_graphviz (all fields, show_deleted) ---\n{}", txt); }
    for x in fs.iter() { println!("VIOLATION-REPLAYED property={} sig={} : {}", x.prop, x.sig, x.what); }
    if fs.is_empty() { println!("no violation on a fresh object (the recorded one may need the history dimension: re-run the check)"); 0 } else { 1 }
}
