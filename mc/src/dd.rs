pub fn check(_p: &str, _tier: &str) -> i32 { 2 }
