//! Plain data parallelism over an index range, with an optional wall-clock cap.
use std::sync::atomic::{AtomicBool, AtomicU64, Ordering::SeqCst};
use std::time::Instant;

pub fn nthreads() -> usize {
    std::env::var("VERIF_THREADS").ok().and_then(|s| s.parse().ok()).unwrap_or_else(|| std::thread::available_parallelism().map(|n| n.get()).unwrap_or(4))
}

/// added to the index of the core a harness thread is pinned to (set by the forked children of the single-worker sweeps)
pub static PIN_OFFSET: std::sync::atomic::AtomicUsize = std::sync::atomic::AtomicUsize::new(0);
pub struct ParResult<T> { pub locals: Vec<T>, pub done: u64, pub total: u64, pub capped: bool }

/// Calls f(i, &mut local) for every i in 0..total (blocks of `chunk`, visited in an order rotated by `seed`).
/// When the deadline passes no new block is started: `capped` is then true and `done` < total.
pub fn par_run<T: Send + Default, F: Fn(u64, &mut T) + Sync>(total: u64, chunk: u64, deadline: Option<Instant>, seed: u64, f: F) -> ParResult<T> {
    par_run_n(total, chunk, deadline, seed, nthreads(), f)
}
/// the same with a given number of harness threads
pub fn par_run_n<T: Send + Default, F: Fn(u64, &mut T) + Sync>(total: u64, chunk: u64, deadline: Option<Instant>, seed: u64, n: usize, f: F) -> ParResult<T> {
    let nblocks = (total + chunk - 1) / chunk.max(1);
    let next = AtomicU64::new(0);
    let done = AtomicU64::new(0);
    let capped = AtomicBool::new(false);
    let rot = if nblocks > 0 { seed.wrapping_mul(0x9E3779B97F4A7C15) % nblocks } else { 0 };
    let n = n.max(1);
    let locals: Vec<T> = std::thread::scope(|s| {
        let ncores = std::thread::available_parallelism().map(|n| n.get()).unwrap_or(1);
        let hs: Vec<_> = (0..n).map(|ti| {
            let (next, done, capped, f) = (&next, &done, &capped, &f);
            s.spawn(move || {
                // one core per worker: whatever the worker spawns (solver threads, example binaries) stays on that core
                pin_current_thread((ti + PIN_OFFSET.load(SeqCst)) % ncores);
                let mut local = T::default();
                loop {
                    if let Some(d) = deadline { if Instant::now() > d { if next.load(SeqCst) < nblocks { capped.store(true, SeqCst); } break; } }
                    let b = next.fetch_add(1, SeqCst);
                    if b >= nblocks { break; }
                    let b = (b + rot) % nblocks;
                    let lo = b * chunk;
                    let hi = (lo + chunk).min(total);
                    for i in lo..hi { f(i, &mut local); }
                    done.fetch_add(hi - lo, SeqCst);
                }
                local
            })
        }).collect();
        hs.into_iter().map(|h| h.join().expect("worker thread of the harness panicked")).collect()
    });
    ParResult { locals, done: done.load(SeqCst), total, capped: capped.load(SeqCst) }
}

extern "C" { fn sched_setaffinity(pid: i32, cpusetsize: usize, mask: *const u64) -> i32; }
/// Pins the calling thread (and the threads it will spawn) to one core: in this kind of VM a thread hand-off across
/// cores costs about a millisecond, on one core it is a plain context switch.
pub fn pin_current_thread(core: usize) {
    let mut mask = [0u64; 16];
    mask[core / 64] |= 1 << (core % 64);
    unsafe { sched_setaffinity(0, std::mem::size_of_val(&mask), mask.as_ptr()); }
}
