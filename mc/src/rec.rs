//! Recording wrappers around user supplied objects (Problem / Relaxation / DecisionDiagram / Cache /
//! DominanceChecker / Cutoff).  They need no change in the repository: everything is observed through
//! the public traits.  All state is thread local, so the same wrappers serve the sequential engines and
//! the worker threads of the parallel solver.
use crate::model::*;
use ddo::*;
use fxhash::FxHashSet;
use std::cell::RefCell;
use std::cmp::Ordering;
use std::sync::atomic::{AtomicBool, AtomicUsize, Ordering::SeqCst};
use std::sync::Arc;

#[derive(Default, Clone, Debug)]
pub struct Stats {
    pub compilations: usize,
    pub relaxed: usize,
    pub restricted: usize,
    pub merges: usize,
    pub relax_calls: usize,
    pub recycled_candidates: usize,
    pub cache_gets: usize,
    pub cache_hits: usize,
    pub cache_updates: usize,
    pub dom_queries: usize,
    pub dom_pruned: usize,
    pub max_layer_expansions: usize,
    pub layers_checked: usize,
}

#[derive(Default)]
pub struct Proto {
    pub enabled: bool,
    pub log_arcs: bool,
    in_compile: bool,
    comp_type: Option<CompilationType>,
    max_width: usize,
    residual_depth: usize,
    residual_path: Vec<Decision>,
    residual_state: Option<St>,
    nb_next_var: usize,
    cur_var: Option<Variable>,
    layer_states: Vec<St>,
    last_merge: Option<(Vec<St>, St)>,
    cur_dom_state: Option<St>,
    cur_dom_decision: Option<Decision>,
    last_transition: Option<(St, Decision, St)>,
    arcs: FxHashSet<(St, usize, isize, St, isize)>,
    expanded_in_layer: usize,
    all_impacted: bool,
    pub alarms12: Vec<String>,
    pub alarms13: Vec<String>,
    pub stats: Stats,
    /// log of the current compilation (for C20): created arcs and relaxed arcs, merges
    pub arc_log: Vec<(St, Decision, St, isize)>,
    pub relaxed_log: Vec<(St, Decision, St, St, isize, isize)>,
    pub merge_log: Vec<(Vec<St>, St)>,
    pub expansions: Vec<(usize, St)>,
    /// last answer of the width heuristic in this thread: (depth, state of the sub-problem, width)
    last_width: Option<(usize, St, usize)>,
    /// where a worker thread of the parallel solver leaves what it observed
    sink: Option<Arc<ParSink>>,
}
/// Collects the observations of the worker threads of one run of the parallel solver (their thread locals die with them).
#[derive(Default)]
pub struct ParSink { pub all_impacted: bool, pub alarms12: std::sync::Mutex<Vec<String>>, pub alarms13: std::sync::Mutex<Vec<String>>, pub stats: std::sync::Mutex<Stats> }

/// Width heuristic wrapper.  The solvers ask it once per sub-problem, in the thread which then compiles that sub-problem:
/// (1) it remembers the answer, so that the diagram wrapper can tell whether the compilation is given that very width;
/// (2) in a worker thread of the parallel solver (fresh thread, thread locals in their default state) it switches the
/// protocol automaton on and attaches the sink of the run.
pub struct RecWidth { pub w: usize, pub sink: Option<Arc<ParSink>> }
impl WidthHeuristic<St> for RecWidth {
    fn max_width(&self, sp: &SubProblem<St>) -> usize {
        PROTO.with(|p| {
            let mut p = p.borrow_mut();
            if let Some(s) = &self.sink {
                if !p.enabled || p.sink.as_ref().map_or(true, |x| !Arc::ptr_eq(x, s)) {
                    *p = Proto::default();
                    p.enabled = true;
                    p.all_impacted = s.all_impacted;
                    p.sink = Some(s.clone());
                }
            }
            if p.enabled { p.last_width = Some((sp.depth, *sp.state, self.w)); }
        });
        self.w
    }
}
thread_local! {
    pub static PROTO: RefCell<Proto> = RefCell::new(Proto::default());
}
fn alarm12(p: &mut Proto, s: String) { if p.alarms12.len() < 8 { p.alarms12.push(s); } }

pub fn proto_reset(enabled: bool, log_arcs: bool, all_impacted: bool) {
    PROTO.with(|p| { let mut p = p.borrow_mut(); *p = Proto::default(); p.enabled = enabled; p.log_arcs = log_arcs; p.all_impacted = all_impacted; });
}
pub fn proto_take() -> (Vec<String>, Vec<String>, Stats) {
    PROTO.with(|p| { let mut p = p.borrow_mut(); (std::mem::take(&mut p.alarms12), std::mem::take(&mut p.alarms13), p.stats.clone()) })
}

/// Problem + Relaxation + StateRanking wrapper
pub struct RecModel<'a>(pub &'a dyn Model);

impl Problem for RecModel<'_> {
    type State = St;
    fn nb_variables(&self) -> usize { self.0.nb_variables() }
    fn initial_state(&self) -> St { self.0.initial_state() }
    fn initial_value(&self) -> isize { self.0.initial_value() }
    fn transition(&self, state: &St, decision: Decision) -> St {
        let dst = self.0.transition(state, decision);
        PROTO.with(|p| {
            let mut p = p.borrow_mut();
            if p.enabled && p.in_compile {
                if p.cur_dom_state != Some(*state) { let m = format!("transition called with source {:?} which is not the state whose domain is being enumerated ({:?})", state, p.cur_dom_state); alarm12(&mut p, m); }
                if p.cur_dom_decision != Some(decision) { let m = format!("transition called with decision {:?} which is not the decision just produced by the domain enumeration ({:?})", decision, p.cur_dom_decision); alarm12(&mut p, m); }
                p.last_transition = Some((*state, decision, dst));
            }
        });
        dst
    }
    fn transition_cost(&self, source: &St, dest: &St, decision: Decision) -> isize {
        let cost = self.0.transition_cost(source, dest, decision);
        PROTO.with(|p| {
            let mut p = p.borrow_mut();
            if p.enabled && p.in_compile {
                if p.last_transition != Some((*source, decision, *dest)) { let m = format!("transition_cost({:?},{:?},{:?}) does not follow transition {:?}", source, dest, decision, p.last_transition); alarm12(&mut p, m); }
                p.arcs.insert((*source, decision.variable.0, decision.value, *dest, cost));
                if p.log_arcs { p.arc_log.push((*source, decision, *dest, cost)); }
            }
        });
        cost
    }
    fn next_variable(&self, depth: usize, next_layer: &mut dyn Iterator<Item = &St>) -> Option<Variable> {
        let states: Vec<St> = next_layer.copied().collect();
        let ans = self.0.next_variable(depth, &mut states.iter());
        PROTO.with(|p| {
            let mut p = p.borrow_mut();
            if p.enabled && p.in_compile {
                let expect = p.residual_depth + p.nb_next_var;
                // first call of a compilation driven by a solver: the sub-problem itself must sit at the depth it claims
                // (its path, replayed through the model, must lead to its state with decisions above that depth only)
                if p.nb_next_var == 0 {
                    if let Some(rs) = p.residual_state {
                        match self.0.replay_prefix(&p.residual_path, p.residual_depth) {
                            Err(e) => { let m = format!("next_variable called with depth {} for a sub-problem whose own path contradicts that depth: {}", depth, e); alarm12(&mut p, m); }
                            Ok((s, _)) => { if s != rs { let m = format!("next_variable called with depth {} for sub-problem state {:?} but its path leads to {:?}", depth, rs, s); alarm12(&mut p, m); } }
                        }
                    }
                }
                if depth != expect { let m = format!("next_variable called with depth {} but the layer is {} layers below the problem root", depth, expect); alarm12(&mut p, m); }
                if self.0.depth_embedded() {
                    if let Some(s) = states.iter().find(|s| s.d as usize != depth) { let m = format!("next_variable(depth={}) handed state {:?} of another layer", depth, s); alarm12(&mut p, m); }
                }
                p.close_layer();
                p.nb_next_var += 1;
                p.cur_var = ans;
                p.layer_states = states;
                p.last_merge = None;
            }
        });
        ans
    }
    fn for_each_in_domain(&self, var: Variable, state: &St, f: &mut dyn DecisionCallback) {
        let on = PROTO.with(|p| {
            let mut p = p.borrow_mut();
            if p.enabled && p.in_compile {
                if p.cur_var != Some(var) { let m = format!("domain enumerated for {:?} but next_variable selected {:?}", var, p.cur_var); alarm12(&mut p, m); }
                let in_layer = p.layer_states.contains(state) || p.last_merge.as_ref().map_or(false, |m| m.1 == *state);
                if !in_layer { let m = format!("domain of {:?} enumerated for state {:?} which is not in the current layer {:?}", var, state, p.layer_states); alarm12(&mut p, m); }
                p.cur_dom_state = Some(*state);
                p.expanded_in_layer += 1;
                if p.log_arcs { let l = p.residual_depth + p.nb_next_var - 1; p.expansions.push((l, *state)); }
                true
            } else { false }
        });
        if on {
            self.0.for_each_in_domain(var, state, &mut |d: Decision| {
                PROTO.with(|p| p.borrow_mut().cur_dom_decision = Some(d));
                f.apply(d);
            });
            PROTO.with(|p| { let mut p = p.borrow_mut(); p.cur_dom_state = None; p.cur_dom_decision = None; });
        } else {
            self.0.for_each_in_domain(var, state, f);
        }
    }
    fn is_impacted_by(&self, var: Variable, state: &St) -> bool { self.0.is_impacted_by(var, state) }
}
impl Relaxation for RecModel<'_> {
    type State = St;
    fn merge(&self, states: &mut dyn Iterator<Item = &St>) -> St {
        let input: Vec<St> = states.copied().collect();
        let res = self.0.merge(&mut input.iter());
        PROTO.with(|p| {
            let mut p = p.borrow_mut();
            if p.enabled && p.in_compile {
                p.stats.merges += 1;
                if input.len() < 2 { let m = format!("merge over {} state(s)", input.len()); alarm12(&mut p, m); }
                if let Some(s) = input.iter().find(|s| !p.layer_states.contains(s)) { let m = format!("merge over state {:?} which is not in the current layer", s); alarm12(&mut p, m); }
                if p.layer_states.contains(&res) && !input.contains(&res) { p.stats.recycled_candidates += 1; }
                if p.log_arcs { p.merge_log.push((input.clone(), res)); }
                p.last_merge = Some((input, res));
            }
        });
        res
    }
    fn relax(&self, source: &St, dest: &St, new: &St, decision: Decision, cost: isize) -> isize {
        let r = self.0.relax(source, dest, new, decision, cost);
        PROTO.with(|p| {
            let mut p = p.borrow_mut();
            if p.enabled && p.in_compile {
                p.stats.relax_calls += 1;
                match p.last_merge.clone() {
                    None => alarm12(&mut p, "relax called before any merge in this layer".to_string()),
                    Some((input, res)) => {
                        if res != *new { let m = format!("relax called with merged={:?} but merge returned {:?}", new, res); alarm12(&mut p, m); }
                        if !input.contains(dest) { let m = format!("relax called with dst={:?} which was not among the merged states {:?}", dest, input); alarm12(&mut p, m); }
                    }
                }
                if !p.arcs.contains(&(*source, decision.variable.0, decision.value, *dest, cost)) {
                    let m = format!("relax({:?},{:?},{:?},{:?},cost={}) does not denote an arc created by transition/transition_cost with that cost", source, dest, new, decision, cost);
                    alarm12(&mut p, m);
                }
                if p.log_arcs { p.relaxed_log.push((*source, decision, *dest, *new, cost, r)); }
            }
        });
        r
    }
    fn fast_upper_bound(&self, state: &St) -> isize { self.0.fast_upper_bound(state) }
}
impl StateRanking for RecModel<'_> {
    type State = St;
    fn compare(&self, a: &St, b: &St) -> Ordering { StateRanking::compare(self.0, a, b) }
}

impl Proto {
    fn close_layer(&mut self) {
        // C13: number of expansions of the layer which just ended
        if self.nb_next_var >= 1 {
            let layer_index = self.nb_next_var - 1; // 0 = root layer of this compilation
            let n = self.expanded_in_layer;
            self.stats.max_layer_expansions = self.stats.max_layer_expansions.max(n);
            if self.all_impacted {
                self.stats.layers_checked += 1;
                let bounded = match self.comp_type {
                    Some(CompilationType::Restricted) => true,
                    Some(CompilationType::Relaxed) => layer_index >= 2,
                    _ => false,
                };
                if bounded && n > self.max_width && self.alarms13.len() < 8 {
                    self.alarms13.push(format!("{:?} compilation with max_width {} expanded {} states in layer {} (residual depth {})", self.comp_type.unwrap(), self.max_width, n, layer_index, self.residual_depth));
                }
            }
        }
        self.expanded_in_layer = 0;
    }
    pub fn begin(&mut self, comp_type: CompilationType, max_width: usize, residual_depth: usize) {
        self.in_compile = true;
        self.comp_type = Some(comp_type);
        self.max_width = max_width;
        self.residual_depth = residual_depth;
        self.residual_path.clear();
        self.residual_state = None;
        self.nb_next_var = 0;
        self.cur_var = None;
        self.layer_states.clear();
        self.last_merge = None;
        self.cur_dom_state = None;
        self.cur_dom_decision = None;
        self.last_transition = None;
        self.arcs.clear();
        self.expanded_in_layer = 0;
        self.arc_log.clear();
        self.relaxed_log.clear();
        self.merge_log.clear();
        self.expansions.clear();
        self.stats.compilations += 1;
        match comp_type { CompilationType::Relaxed => self.stats.relaxed += 1, CompilationType::Restricted => self.stats.restricted += 1, _ => () }
    }
    pub fn end(&mut self) {
        self.close_layer();
        self.in_compile = false;
        if let Some(s) = self.sink.clone() {
            // worker thread of the parallel solver: hand over what this compilation added
            s.alarms12.lock().unwrap().append(&mut self.alarms12);
            s.alarms13.lock().unwrap().append(&mut self.alarms13);
            let mut t = s.stats.lock().unwrap();
            let d = std::mem::take(&mut self.stats);
            t.compilations += d.compilations; t.relaxed += d.relaxed; t.restricted += d.restricted; t.merges += d.merges; t.relax_calls += d.relax_calls;
            t.recycled_candidates += d.recycled_candidates; t.layers_checked += d.layers_checked; t.max_layer_expansions = t.max_layer_expansions.max(d.max_layer_expansions);
        }
    }
}

/// DecisionDiagram wrapper: tells the protocol automaton where a compilation starts and ends
pub struct RecDD<D>(pub D);
impl<D: Default> Default for RecDD<D> { fn default() -> Self { RecDD(D::default()) } }
impl<D: DecisionDiagram<State = St>> DecisionDiagram for RecDD<D> {
    type State = St;
    fn compile(&mut self, input: &CompilationInput<St>) -> Result<Completion, Reason> {
        let on = PROTO.with(|p| {
            let mut p = p.borrow_mut();
            if p.enabled {
                p.begin(input.comp_type, input.max_width, input.residual.depth);
                p.residual_path = input.residual.path.clone();
                p.residual_state = Some(*input.residual.state);
                // a solver run: the width given to the compilation is the one the heuristic answered for THIS sub-problem
                if let Some((d, st, w)) = p.last_width {
                    if (d, st) != (input.residual.depth, *input.residual.state) && p.alarms13.len() < 8 {
                        p.alarms13.push(format!("{:?} compilation of sub-problem {:?}@{} although the width heuristic was last asked about {:?}@{}", input.comp_type, input.residual.state, input.residual.depth, st, d));
                    } else if w != input.max_width && input.comp_type != CompilationType::Exact && p.alarms13.len() < 8 {
                        p.alarms13.push(format!("{:?} compilation of sub-problem {:?}@{} with max_width {} although the width heuristic answered {}", input.comp_type, input.residual.state, input.residual.depth, input.max_width, w));
                    }
                }
            }
            p.enabled
        });
        let r = self.0.compile(input);
        if on { PROTO.with(|p| p.borrow_mut().end()); }
        r
    }
    fn is_exact(&self) -> bool { self.0.is_exact() }
    fn best_value(&self) -> Option<isize> { self.0.best_value() }
    fn best_solution(&self) -> Option<Solution> { self.0.best_solution() }
    fn best_exact_value(&self) -> Option<isize> { self.0.best_exact_value() }
    fn best_exact_solution(&self) -> Option<Solution> { self.0.best_exact_solution() }
    fn drain_cutset<F>(&mut self, func: F) where F: FnMut(SubProblem<St>) { self.0.drain_cutset(func) }
}

thread_local! { static IN_CS_LIGHT: std::cell::Cell<bool> = std::cell::Cell::new(false); }
/// number of sub-problems popped by the parallel solver (threshold recorded inside a critical section), and how many of
/// them had already been popped before -- same (state, depth) -- with a SMALLER value (vacuity guard of C09: the threshold
/// recorded at pop time only matters in that situation)
pub static POPS: std::sync::atomic::AtomicU64 = std::sync::atomic::AtomicU64::new(0);
pub static REPOPS_BETTER: std::sync::atomic::AtomicU64 = std::sync::atomic::AtomicU64::new(0);
/// hook used by the single-worker sweeps (no scheduling): only remembers whether the calling thread holds the critical mutex
pub fn install_light_hook() {
    ddo::verif::set_hook(Some(Arc::new(|e: ddo::verif::Event| match e {
        ddo::verif::Event::Lock => IN_CS_LIGHT.with(|f| f.set(true)),
        ddo::verif::Event::Unlock => IN_CS_LIGHT.with(|f| f.set(false)),
        _ => (),
    })));
}
/// Cache wrapper (the solver creates it through Default): counts, checks the contract the solver relies on,
/// and (under the controlled scheduler) makes every operation issued outside a critical section a scheduling point.
pub struct RecCache { inner: SimpleCache<St>, nb_layers: AtomicUsize,
    /// under the controlled scheduler: the REAL content of the store for every key ever touched (read back after each
    /// write), whose hash is part of the fingerprint of the global state
    mirror: std::sync::Mutex<std::collections::BTreeMap<(St, usize), (isize, bool)>>,
    popped: std::sync::Mutex<std::collections::HashMap<(St, usize), isize>> }
impl Default for RecCache { fn default() -> Self { RecCache { inner: SimpleCache::default(), nb_layers: AtomicUsize::new(0), mirror: Default::default(), popped: Default::default() } } }
impl RecCache {
    fn refresh(&self, touched: Option<(St, usize)>) {
        if !crate::sched::in_worker() { return; }
        let ex = match crate::sched::myex() { Some(x) => x, None => return };
        let mut m = self.mirror.lock().unwrap();
        match touched {
            Some((s, d)) => { match self.inner.get_threshold(&s, d) { Some(t) => { m.insert((s, d), (t.value, t.explored)); } None => { m.remove(&(s, d)); } } }
            None => { let keys: Vec<(St, usize)> = m.keys().copied().collect(); for (s, d) in keys { match self.inner.get_threshold(&s, d) { Some(t) => { m.insert((s, d), (t.value, t.explored)); } None => { m.remove(&(s, d)); } } } }
        }
        let mut h = 0u64;
        for (k, v) in m.iter() { h = crate::sched::mix(h, crate::sched::hash_of(&(k, v))); }
        ex.cache_fp.store(h, SeqCst);
    }
}
thread_local! {
    pub static CACHE_ALARMS: RefCell<Vec<String>> = RefCell::new(vec![]);
}
pub static CACHE_EXACT_CHECK: AtomicBool = AtomicBool::new(false);
fn cache_alarm(s: String) { CACHE_ALARMS.with(|a| { let mut a = a.borrow_mut(); if a.len() < 8 { a.push(s); } }); }
impl Cache for RecCache {
    type State = St;
    fn initialize(&mut self, p: &dyn Problem<State = St>) { self.nb_layers.store(p.nb_variables() + 1, SeqCst); self.inner.initialize(p) }
    fn get_threshold(&self, s: &St, d: usize) -> Option<Threshold> {
        crate::sched::shared_op_yield();
        if d >= self.nb_layers.load(SeqCst) { cache_alarm(format!("get_threshold at depth {} beyond the last layer", d)); return None; }
        let r = self.inner.get_threshold(s, d);
        if crate::sched::in_worker() && !crate::sched::in_critical_section() { crate::sched::note_read(crate::sched::hash_of(&r.map(|t| (t.value, t.explored)))); }
        PROTO.with(|p| { let mut p = p.borrow_mut(); p.stats.cache_gets += 1; if r.is_some() { p.stats.cache_hits += 1; } });
        r
    }
    fn update_threshold(&self, s: Arc<St>, d: usize, v: isize, e: bool) {
        crate::sched::shared_op_yield();
        if d >= self.nb_layers.load(SeqCst) { cache_alarm(format!("update_threshold at depth {} beyond the last layer", d)); return; }
        PROTO.with(|p| p.borrow_mut().stats.cache_updates += 1);
        let key = (*s, d);
        if e && (IN_CS_LIGHT.with(|f| f.get()) || crate::sched::in_critical_section()) {
            POPS.fetch_add(1, SeqCst);
            if std::env::var("VERIF_TRACE_POP").is_ok() { eprintln!("pop {:?}@{} value {}", key.0, d, v); }
            let mut p = self.popped.lock().unwrap();
            match p.get(&key) { Some(old) if *old < v => { REPOPS_BETTER.fetch_add(1, SeqCst); p.insert(key, v); } Some(_) => (), None => { p.insert(key, v); } }
        }
        self.inner.update_threshold(s, d, v, e);
        self.refresh(Some(key));
    }
    fn clear_layer(&self, d: usize) { crate::sched::shared_op_yield(); self.inner.clear_layer(d); self.refresh(None); }
    fn clear(&self) { crate::sched::shared_op_yield(); self.inner.clear(); self.refresh(None); }
}

/// Dominance checker wrapper
pub struct RecDom<'a> { pub inner: Option<SimpleDominanceChecker<GenDom<'a>>>, model: &'a dyn Model,
    /// under the controlled scheduler: per depth (hash of what happened before the last clear_layer, per key the hash
    /// of the sequence of queries and answers since then): the content of the store is a function of that history, and
    /// queries on different keys commute
    hist: std::sync::Mutex<std::collections::BTreeMap<usize, (u64, std::collections::BTreeMap<Option<u32>, u64>)>> }
impl<'a> RecDom<'a> {
    pub fn new(m: &'a dyn Model) -> Self {
        if m.dom_dims() > 0 { RecDom { inner: Some(SimpleDominanceChecker::new(GenDom(m), m.nb_variables())), model: m, hist: Default::default() } } else { RecDom { inner: None, model: m, hist: Default::default() } }
    }
    fn publish(&self, h: &std::collections::BTreeMap<usize, (u64, std::collections::BTreeMap<Option<u32>, u64>)>) {
        if let Some(ex) = crate::sched::myex() {
            let mut x = 0u64;
            for (d, (epoch, keys)) in h.iter() { x = crate::sched::mix(x, *d as u64); x = crate::sched::mix(x, *epoch); for (k, v) in keys.iter() { x = crate::sched::mix(x, crate::sched::hash_of(k)); x = crate::sched::mix(x, *v); } }
            ex.dom_fp.store(x, SeqCst);
        }
    }
}
impl DominanceChecker for RecDom<'_> {
    type State = St;
    fn clear_layer(&self, depth: usize) {
        if let Some(i) = &self.inner {
            crate::sched::shared_op_yield();
            i.clear_layer(depth);
            if crate::sched::in_worker() {
                let mut h = self.hist.lock().unwrap();
                let e = h.entry(depth).or_insert((0, Default::default()));
                let mut x = crate::sched::mix(e.0, 0xC1EA);
                for (k, v) in e.1.iter() { x = crate::sched::mix(x, crate::sched::hash_of(k)); x = crate::sched::mix(x, *v); }
                *e = (x, Default::default());
                self.publish(&h);
            }
        }
    }
    fn is_dominated_or_insert(&self, state: Arc<St>, depth: usize, value: isize) -> DominanceCheckResult {
        match &self.inner {
            None => DominanceCheckResult { dominated: false, threshold: None },
            Some(i) => {
                crate::sched::shared_op_yield();
                let st = *state;
                let r = i.is_dominated_or_insert(state, depth, value);
                if crate::sched::in_worker() {
                    let q = crate::sched::hash_of(&(st, value, r.dominated, r.threshold));
                    if !crate::sched::in_critical_section() { crate::sched::note_read(q); }
                    let mut h = self.hist.lock().unwrap();
                    let e = h.entry(depth).or_insert((0, Default::default()));
                    let k = self.model.dom_key(&st);
                    let v = e.1.entry(k).or_insert(0);
                    *v = crate::sched::mix(*v, q);
                    self.publish(&h);
                }
                if std::env::var("VERIF_TRACE_DOM").is_ok() { eprintln!("dominance query state {:?} depth {} value {} -> dominated {} threshold {:?}", st, depth, value, r.dominated, r.threshold); }
                PROTO.with(|p| { let mut p = p.borrow_mut(); p.stats.dom_queries += 1; if r.dominated { p.stats.dom_pruned += 1; } });
                r
            }
        }
    }
    fn cmp(&self, a: &St, val_a: isize, b: &St, val_b: isize) -> Ordering {
        match &self.inner { None => Ordering::Equal, Some(i) => i.cmp(a, val_a, b, val_b) }
    }
}

/// Cutoff which starts answering `stop` at poll `fire_at` (1-based) and has a fuel bound
pub struct KCut { pub polls: AtomicUsize, pub fire_at: usize, pub fuel: usize, pub exhausted: AtomicBool }
impl KCut {
    pub fn new(fire_at: usize, fuel: usize) -> KCut { KCut { polls: AtomicUsize::new(0), fire_at, fuel, exhausted: AtomicBool::new(false) } }
}
impl Cutoff for KCut {
    fn must_stop(&self) -> bool {
        crate::sched::cutoff_yield(self.fire_at != usize::MAX);
        let k = self.polls.fetch_add(1, SeqCst) + 1;
        if k >= self.fire_at { return true; }
        if k > self.fuel { self.exhausted.store(true, SeqCst); return true; }
        false
    }
}

/// Concrete StateRanking type usable inside MaxUB
pub struct RankRef<'a>(pub &'a dyn Model);
impl StateRanking for RankRef<'_> {
    type State = St;
    fn compare(&self, a: &St, b: &St) -> Ordering { StateRanking::compare(self.0, a, b) }
}
