mod model;
mod family;
mod rec;
mod run;
mod report;
mod par;
mod bnb;
mod sched;
mod checks;
mod dd;
mod dot;
mod loomdrv;
mod ops;
mod gap;
mod examples;
mod replay;

fn main() {
    let args: Vec<String> = std::env::args().skip(1).collect();
    run::install_quiet_panic_hook();
    // a panic which escapes an engine is a failure of the machinery (exit 3), never a verdict
    let code = match std::panic::catch_unwind(|| checks::dispatch(&args)) {
        Ok(c) => c,
        Err(_) => {
            let msg = run::LAST_PANIC.lock().ok().and_then(|l| l.clone()).unwrap_or_default();
            eprintln!("MACHINERY-ERROR: the harness itself panicked ({}): {}", args.join(" "), msg);
            3
        }
    };
    std::process::exit(code);
}
