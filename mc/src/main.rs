mod model;
mod family;
mod rec;
mod run;
mod report;
mod par;
mod bnb;
mod sched;
mod checks;
mod dd;
mod dot;
mod loomdrv;
mod ops;
mod gap;
mod examples;
mod replay;

fn main() {
    let args: Vec<String> = std::env::args().skip(1).collect();
    run::install_quiet_panic_hook();
    let code = checks::dispatch(&args);
    std::process::exit(code);
}
