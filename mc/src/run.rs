//! Running the real solvers on a model under a configuration.
use crate::model::*;
use crate::rec::*;
use ddo::*;
use serde_json::{json, Value};
use std::cell::RefCell;
use std::panic::{catch_unwind, AssertUnwindSafe};
use std::sync::atomic::Ordering::SeqCst;
use std::sync::Arc;

#[derive(Clone, Copy, Debug, PartialEq, Eq, Hash)]
pub enum DdKind { Lel, Fc, Pooled }
#[derive(Clone, Copy, Debug, PartialEq, Eq, Hash)]
pub struct Cfg { pub dd: DdKind, pub cache: bool, pub nodup: bool, pub width: usize }
impl Cfg {
    pub fn json(&self) -> Value { json!({"dd": format!("{:?}", self.dd), "cache": self.cache, "nodup": self.nodup, "width": self.width}) }
    pub fn from_json(v: &Value) -> Cfg {
        Cfg {
            dd: match v["dd"].as_str().unwrap() { "Lel" => DdKind::Lel, "Fc" => DdKind::Fc, _ => DdKind::Pooled },
            cache: v["cache"].as_bool().unwrap(), nodup: v["nodup"].as_bool().unwrap(), width: v["width"].as_u64().unwrap() as usize,
        }
    }
    pub fn short(&self) -> String { format!("{}:{}:{}:w{}", match self.dd { DdKind::Lel => "lel", DdKind::Fc => "fc", DdKind::Pooled => "pooled" }, if self.cache { "cache" } else { "nocache" }, if self.nodup { "nodup" } else { "simple" }, self.width) }
    /// the complete factorial diagram x cache x fringe x widths
    pub fn full(widths: &[usize]) -> Vec<Cfg> {
        let mut v = vec![];
        for dd in [DdKind::Lel, DdKind::Fc, DdKind::Pooled] { for cache in [false, true] { for nodup in [false, true] { for w in widths { v.push(Cfg { dd, cache, nodup, width: *w }); } } } }
        v
    }
}

thread_local! {
    static PANIC_MSG: RefCell<Option<String>> = RefCell::new(None);
}
/// last panic message of any thread (for the machinery-error report of main when a panic escapes an engine)
pub static LAST_PANIC: std::sync::Mutex<Option<String>> = std::sync::Mutex::new(None);
pub fn install_quiet_panic_hook() {
    std::panic::set_hook(Box::new(|info| {
        let msg = format!("{}", info);
        if std::env::var("VERIF_LOUD_PANIC").is_ok() { eprintln!("[panic] {}", msg); }
        if let Ok(mut l) = LAST_PANIC.lock() { *l = Some(msg.clone()); }
        PANIC_MSG.with(|m| *m.borrow_mut() = Some(msg));
    }));
}
pub fn take_panic_msg() -> String { PANIC_MSG.with(|m| m.borrow_mut().take()).unwrap_or_else(|| "panic".to_string()) }

#[derive(Clone, Debug, Default)]
pub struct Out {
    /// maximize() did not return (parallel solver only)
    pub hang: bool,
    pub panicked: Option<String>,
    pub fuel_out: bool,
    pub is_exact: bool,
    pub completion_value: Option<isize>,
    pub best_value: Option<isize>,
    pub best_solution: Option<Vec<Decision>>,
    pub lb: isize,
    pub ub: isize,
    pub explored: usize,
    pub polls: usize,
    pub gap: f32,
    pub alarms12: Vec<String>,
    pub alarms13: Vec<String>,
    pub cache_alarms: Vec<String>,
    pub stats: Stats,
}
impl Out {
    pub fn json(&self) -> Value {
        json!({"panicked": self.panicked, "fuel_exhausted": self.fuel_out, "is_exact": self.is_exact, "completion.best_value": self.completion_value, "best_value": self.best_value,
               "best_solution": self.best_solution.as_ref().map(|s| s.iter().map(|d| (d.variable.0, d.value)).collect::<Vec<_>>()),
               "lb": self.lb, "ub": self.ub, "explored": self.explored, "polls": self.polls, "gap": format!("{}", self.gap)})
    }
}

#[derive(Clone, Debug)]
pub struct RunSpec {
    pub cfg: Cfg,
    /// poll index (1-based) from which the cut-off answers stop; usize::MAX = never
    pub fire_at: usize,
    pub primal: Option<(isize, Vec<Decision>)>,
    /// second set_primal call (value, solution) to exercise the replace-only-if-greater rule
    pub primal2: Option<(isize, Vec<Decision>)>,
    pub record: bool,
}
impl RunSpec {
    pub fn plain(cfg: Cfg) -> RunSpec { RunSpec { cfg, fire_at: usize::MAX, primal: None, primal2: None, record: false } }
}

pub fn fuel_for(m: &dyn Model) -> usize { 100 * (m.nb_paths_bound() + 1) * (m.nb_variables() + 1) }

macro_rules! seq_dispatch {
    ($cfg:expr, $f:ident, $($args:expr),*) => {
        match ($cfg.dd, $cfg.cache) {
            (DdKind::Lel, false) => $f::<RecDD<DefaultMDDLEL<St>>, EmptyCache<St>>($($args),*),
            (DdKind::Lel, true) => $f::<RecDD<DefaultMDDLEL<St>>, RecCache>($($args),*),
            (DdKind::Fc, false) => $f::<RecDD<DefaultMDDFC<St>>, EmptyCache<St>>($($args),*),
            (DdKind::Fc, true) => $f::<RecDD<DefaultMDDFC<St>>, RecCache>($($args),*),
            (DdKind::Pooled, false) => $f::<RecDD<Pooled<St>>, EmptyCache<St>>($($args),*),
            (DdKind::Pooled, true) => $f::<RecDD<Pooled<St>>, RecCache>($($args),*),
        }
    };
}
pub(crate) use seq_dispatch;

fn run_seq_inner<D, C>(m: &dyn Model, spec: &RunSpec) -> Out
where D: DecisionDiagram<State = St> + Default, C: Cache<State = St> + Default {
    let rec = RecModel(m);
    let rank = RankRef(m);
    let width = RecWidth { w: spec.cfg.width, sink: None };
    let dom = RecDom::new(m);
    let cut = KCut::new(spec.fire_at, fuel_for(m));
    let mut simple = SimpleFringe::new(MaxUB::new(&rank));
    let mut nodup = NoDupFringe::new(MaxUB::new(&rank));
    let fringe: &mut dyn Fringe<State = St> = if spec.cfg.nodup { &mut nodup } else { &mut simple };
    proto_reset(spec.record, false, m.all_impacted());
    CACHE_ALARMS.with(|a| a.borrow_mut().clear());
    let mut out = Out::default();
    let mut solver = SequentialSolver::<St, D, C>::custom(&rec, &rec, &rec, &width, &dom, &cut, fringe);
    if let Some((v, s)) = &spec.primal { solver.set_primal(*v, s.clone()); }
    if let Some((v, s)) = &spec.primal2 { solver.set_primal(*v, s.clone()); }
    let r = catch_unwind(AssertUnwindSafe(|| solver.maximize()));
    match r {
        Err(_) => { out.panicked = Some(take_panic_msg()); }
        Ok(c) => {
            out.is_exact = c.is_exact;
            out.completion_value = c.best_value;
            out.best_value = solver.best_value();
            out.best_solution = solver.best_solution();
            out.lb = solver.best_lower_bound();
            out.ub = solver.best_upper_bound();
            out.explored = solver.explored();
            out.gap = solver.gap();
        }
    }
    out.polls = cut.polls.load(SeqCst);
    out.fuel_out = cut.exhausted.load(SeqCst);
    let (a12, a13, stats) = proto_take();
    out.alarms12 = a12;
    out.alarms13 = a13;
    out.stats = stats;
    out.cache_alarms = CACHE_ALARMS.with(|a| std::mem::take(&mut *a.borrow_mut()));
    out
}

pub fn run_seq(m: &dyn Model, spec: &RunSpec) -> Out {
    seq_dispatch!(spec.cfg, run_seq_inner, m, spec)
}

// ------------------------------------------------------------------------------------------------------------
// the PARALLEL solver with a fixed small number of workers and no controlled scheduler: with ONE worker the run is
// deterministic, which makes it usable for bounded-exhaustive sweeps over inputs (the schedules are E1's business)
// ------------------------------------------------------------------------------------------------------------
macro_rules! par_dispatch1 {
    ($cfg:expr, $f:ident, $($args:expr),*) => {
        match ($cfg.dd, $cfg.cache) {
            (DdKind::Lel, false) => $f::<RecDD<DefaultMDDLEL<St>>, EmptyCache<St>>($($args),*),
            (DdKind::Lel, true) => $f::<RecDD<DefaultMDDLEL<St>>, RecCache>($($args),*),
            (DdKind::Fc, false) => $f::<RecDD<DefaultMDDFC<St>>, EmptyCache<St>>($($args),*),
            (DdKind::Fc, true) => $f::<RecDD<DefaultMDDFC<St>>, RecCache>($($args),*),
            (DdKind::Pooled, false) => $f::<RecDD<Pooled<St>>, EmptyCache<St>>($($args),*),
            (DdKind::Pooled, true) => $f::<RecDD<Pooled<St>>, RecCache>($($args),*),
        }
    };
}
fn run_par_inner<D, C>(m: &dyn Model, spec: &RunSpec, threads: usize) -> Out
where D: DecisionDiagram<State = St> + Default, C: Cache<State = St> + Default + Send + Sync {
    let rec = RecModel(m);
    let rank = RankRef(m);
    // the workers of the parallel solver are fresh threads: the width wrapper switches their recorders on (rec.rs)
    let sink = if spec.record { Some(Arc::new(ParSink { all_impacted: m.all_impacted(), ..Default::default() })) } else { None };
    let width = RecWidth { w: spec.cfg.width, sink: sink.clone() };
    let dom = RecDom::new(m);
    let cut = KCut::new(spec.fire_at, fuel_for(m));
    let mut simple = SimpleFringe::new(MaxUB::new(&rank));
    let mut nodup = NoDupFringe::new(MaxUB::new(&rank));
    let fringe: &mut (dyn Fringe<State = St> + Send + Sync) = if spec.cfg.nodup { &mut nodup } else { &mut simple };
    let mut out = Out::default();
    let mut solver = ParallelSolver::<St, D, C>::custom(&rec, &rec, &rec, &width, &dom, &cut, fringe, threads);
    if let Some((v, s)) = &spec.primal { solver.set_primal(*v, s.clone()); }
    if let Some((v, s)) = &spec.primal2 { solver.set_primal(*v, s.clone()); }
    let r = catch_unwind(AssertUnwindSafe(|| solver.maximize()));
    match r {
        Err(_) => { out.panicked = Some(take_panic_msg()); }
        Ok(c) => {
            out.is_exact = c.is_exact;
            out.completion_value = c.best_value;
            out.best_value = solver.best_value();
            out.best_solution = solver.best_solution();
            out.lb = solver.best_lower_bound();
            out.ub = solver.best_upper_bound();
            out.explored = solver.explored();
            out.gap = solver.gap();
        }
    }
    out.polls = cut.polls.load(SeqCst);
    out.fuel_out = cut.exhausted.load(SeqCst);
    if let Some(s) = sink {
        out.alarms12 = std::mem::take(&mut *s.alarms12.lock().unwrap());
        out.alarms13 = std::mem::take(&mut *s.alarms13.lock().unwrap());
        out.stats = s.stats.lock().unwrap().clone();
    }
    out
}
/// Runs the parallel solver in a helper thread; `None` = maximize() did not return (twice: 20 s, then 120 s; the threads are abandoned)
pub fn run_par(m: std::sync::Arc<dyn Model>, spec: &RunSpec, threads: usize) -> Option<Out> {
    // A run normally takes well under a millisecond.  A time-out alone is not believed (the machine may be heavily
    // loaded): the same case -- deterministic with one worker -- is run again with a much longer time-out, and only a
    // second time-out is a hang.
    for secs in [20u64, 120] {
        let (tx, rx) = std::sync::mpsc::channel();
        let (spec2, m2) = (spec.clone(), m.clone());
        std::thread::spawn(move || {
            let out = par_dispatch1!(spec2.cfg, run_par_inner, m2.as_ref(), &spec2, threads);
            let _ = tx.send(out);
        });
        if let Ok(o) = rx.recv_timeout(std::time::Duration::from_secs(secs)) { return Some(o); }
    }
    None
}
