//! E2: bounded-exhaustive exploration of (instance x model variant x solver configuration [x cut-off index | x primal])
//! through the real SequentialSolver, judged by the oracles of the model.
use crate::family::*;
use crate::model::*;
use crate::par::*;
use crate::report::*;
use crate::run::*;
use ddo::Decision;
use serde_json::{json, Value};
use std::collections::BTreeMap;
use std::time::Instant;

#[derive(Clone, Copy, Debug, PartialEq, Eq)]
pub enum Mode { Plain, Cutoffs, Primal }

#[derive(Clone, Debug)]
pub struct Plan {
    pub fam: Fam,
    pub variants: Vec<Variant>,
    /// true: instance i is run under variants[i % len] only; false: under every variant
    pub rotate: bool,
    pub cfgs: Vec<Cfg>,
    pub mode: Mode,
    pub record: bool,
    /// only the first `limit` instances of the family (None = all)
    pub limit: Option<u64>,
    /// run the PARALLEL solver with one worker (deterministic) instead of the sequential solver
    pub par1: bool,
}

#[derive(Default)]
pub struct Agg {
    pub instances: u64,
    pub runs: u64,
    pub nontrivial: u64,
    pub cut_runs: u64,
    pub cut_nontrivial: u64,
    pub primal_runs: u64,
    pub primal_below_opt: u64,
    pub infeasible_instances: u64,
    pub merges: u64,
    pub restricted: u64,
    pub relaxed: u64,
    pub cache_hits: u64,
    pub dom_pruned: u64,
    pub relax_calls: u64,
    pub layers_checked: u64,
    pub long_arc_instances: u64,
    pub twin_pairs: u64,
    pub cache_twin_diff_explored: u64,
    pub gap_checked: u64,
    /// max over terminating runs of polls * 1000 / fuel (how far legitimate runs stay below the fuel bound)
    pub max_fuel_permille: u64,
    pub hangs: u64,
    pub outcomes: BTreeMap<String, u64>,
    pub samples: Vec<Value>,
    pub monitor_hits: BTreeMap<String, u64>,
}
impl Agg {
    fn merge(&mut self, o: Agg) {
        self.instances += o.instances; self.runs += o.runs; self.nontrivial += o.nontrivial; self.cut_runs += o.cut_runs; self.cut_nontrivial += o.cut_nontrivial;
        self.primal_runs += o.primal_runs; self.primal_below_opt += o.primal_below_opt; self.infeasible_instances += o.infeasible_instances;
        self.merges += o.merges; self.restricted += o.restricted; self.relaxed += o.relaxed; self.cache_hits += o.cache_hits; self.dom_pruned += o.dom_pruned;
        self.relax_calls += o.relax_calls; self.layers_checked += o.layers_checked; self.long_arc_instances += o.long_arc_instances; self.twin_pairs += o.twin_pairs;
        self.cache_twin_diff_explored += o.cache_twin_diff_explored; self.gap_checked += o.gap_checked; self.max_fuel_permille = self.max_fuel_permille.max(o.max_fuel_permille); self.hangs += o.hangs;
        for (k, v) in o.outcomes { *self.outcomes.entry(k).or_insert(0) += v; }
        for (k, v) in o.monitor_hits { *self.monitor_hits.entry(k).or_insert(0) += v; }
        for s in o.samples { if self.samples.len() < 6 { self.samples.push(s); } }
    }
}

impl Agg {
    fn to_json(&self) -> Value {
        json!({"n": [self.instances, self.runs, self.nontrivial, self.cut_runs, self.cut_nontrivial, self.primal_runs, self.primal_below_opt, self.infeasible_instances, self.merges, self.restricted, self.relaxed,
                     self.cache_hits, self.dom_pruned, self.relax_calls, self.layers_checked, self.long_arc_instances, self.twin_pairs, self.cache_twin_diff_explored, self.gap_checked, self.max_fuel_permille, self.hangs],
               "outcomes": self.outcomes, "samples": self.samples, "monitor_hits": self.monitor_hits})
    }
    fn from_json(v: &Value) -> Agg {
        let n: Vec<u64> = v["n"].as_array().map(|a| a.iter().map(|x| x.as_u64().unwrap_or(0)).collect()).unwrap_or_default();
        let g = |i: usize| n.get(i).copied().unwrap_or(0);
        let map = |k: &str| -> BTreeMap<String, u64> { v[k].as_object().map(|o| o.iter().map(|(a, b)| (a.clone(), b.as_u64().unwrap_or(0))).collect()).unwrap_or_default() };
        Agg { instances: g(0), runs: g(1), nontrivial: g(2), cut_runs: g(3), cut_nontrivial: g(4), primal_runs: g(5), primal_below_opt: g(6), infeasible_instances: g(7), merges: g(8), restricted: g(9), relaxed: g(10),
              cache_hits: g(11), dom_pruned: g(12), relax_calls: g(13), layers_checked: g(14), long_arc_instances: g(15), twin_pairs: g(16), cache_twin_diff_explored: g(17), gap_checked: g(18), max_fuel_permille: g(19), hangs: g(20),
              outcomes: map("outcomes"), samples: v["samples"].as_array().cloned().unwrap_or_default(), monitor_hits: map("monitor_hits") }
    }
}

pub struct Finding { pub prop: &'static str, pub sig: String, pub what: String }

fn model_class(m: &dyn Model) -> String {
    let v = m.variant();
    format!("{}{}{}", if m.depth_embedded() { "depth" } else { "flat" }, if m.has_long_arcs() { "+longarcs" } else { "" }, if v.dom != Dom::Off { "+dom" } else { "" })
}

/// monitors of an uninterrupted run
pub fn judge_plain(m: &dyn Model, cfg: &Cfg, out: &Out, primal: Option<isize>) -> Vec<Finding> { judge_plain_k(m, cfg, out, primal, false) }
/// `par`: the run was made by the parallel solver (one worker): the primary property is C03 instead of C01
pub fn judge_plain_k(m: &dyn Model, cfg: &Cfg, out: &Out, primal: Option<isize>, par: bool) -> Vec<Finding> {
    let mut f = vec![];
    let opt = m.opt();
    let target = match (opt, primal) { (Some(o), Some(p)) => Some(o.max(p)), (None, Some(p)) => Some(p), (o, None) => o };
    let p1 = if primal.is_some() { "C14" } else if par { "C03" } else { "C01" };
    let mc = model_class(m);
    let sp = if par { "par1" } else { "seq" };
    if out.hang {
        f.push(Finding { prop: "C04", sig: format!("par1:hang:{:?}:{}", cfg.dd, if cfg.cache { "cache" } else { "nocache" }).to_lowercase(), what: "parallel maximize() with one worker did not return (20 s, then 120 s on a second attempt: worker parked for ever)".to_string() });
        if primal.is_none() { f.push(Finding { prop: "C03", sig: format!("par1:hang:{:?}:{}", cfg.dd, if cfg.cache { "cache" } else { "nocache" }).to_lowercase(), what: "parallel maximize() with one worker did not return (two attempts)".to_string() }); }
        if cfg.cache && primal.is_none() { f.push(Finding { prop: "C09", sig: format!("par1:hang:{:?}:cache", cfg.dd).to_lowercase(), what: "parallel caching solver with one worker did not return (two attempts)".to_string() }); }
        return f;
    }
    if let Some(p) = &out.panicked {
        let site = if p.contains("sequential.rs") { "sequential.rs" } else if p.contains("no_duplicate.rs") { "no_duplicate.rs" } else if p.contains("clean.rs") { "clean.rs" } else if p.contains("pooled.rs") { "pooled.rs" } else { "other" };
        f.push(Finding { prop: p1, sig: format!("{}:panic:{}:{}:{}", sp, site, if cfg.nodup { "nodup" } else { "simple" }, mc), what: format!("maximize() panicked: {}", p) });
        if m.has_long_arcs() && primal.is_none() { f.push(Finding { prop: "C15", sig: format!("{}:panic:{}:{}", sp, site, cfg.short()), what: format!("maximize() panicked: {}", p) }); }
        return f;
    }
    if out.fuel_out {
        let sig = format!("{}:nonterm:{:?}:{}:{}", sp, cfg.dd, if cfg.cache { "cache" } else { "nocache" }, mc).to_lowercase();
        f.push(Finding { prop: p1, sig: sig.clone(), what: format!("maximize() did not terminate within the fuel bound ({} polls)", out.polls) });
        if m.has_long_arcs() && primal.is_none() { f.push(Finding { prop: "C15", sig, what: format!("maximize() did not terminate within the fuel bound ({} polls)", out.polls) }); }
        return f;
    }
    if !out.is_exact { f.push(Finding { prop: p1, sig: format!("{}:inexact:{}", sp, mc), what: "uninterrupted maximize() reported is_exact = false".to_string() }); }
    if out.best_value != target {
        let sig = format!("{}:wrongopt:{:?}:{}:{}:{}", sp, cfg.dd, if cfg.cache { "cache" } else { "nocache" }, if cfg.nodup { "nodup" } else { "simple" }, mc).to_lowercase();
        let what = format!("best value {:?} but the optimum is {:?} (primal {:?})", out.best_value, opt, primal);
        f.push(Finding { prop: p1, sig: sig.clone(), what: what.clone() });
        if m.has_long_arcs() && primal.is_none() { f.push(Finding { prop: "C15", sig: sig.clone(), what: what.clone() }); }
        if cfg.cache && primal.is_none() { f.push(Finding { prop: "C09", sig: sig.clone(), what: what.clone() }); }
        if m.variant().dom != Dom::Off && primal.is_none() { f.push(Finding { prop: "C10", sig: sig.clone(), what: what.clone() }); }
        if cfg.nodup && !m.depth_embedded() && primal.is_none() { f.push(Finding { prop: "C11", sig, what }); }
    }
    // C02 coherence
    f.extend(judge_solution(m, out, primal, true));
    // C17 on solver runs: after an exact run with a value the gap is 0 and never NaN
    if out.gap.is_nan() { f.push(Finding { prop: "C17", sig: format!("gap:nan:lb={}:ub={}", sgn(out.lb), sgn(out.ub)), what: format!("gap() is NaN after maximize() with lb={} ub={}", out.lb, out.ub) }); }
    else if out.best_value.is_some() && out.lb == out.ub && out.gap != 0.0 { f.push(Finding { prop: "C17", sig: "gap:nonzero-at-optimum".to_string(), what: format!("gap() = {} although lb = ub = {}", out.gap, out.lb) }); }
    for a in &out.alarms12 { f.push(Finding { prop: "C12", sig: format!("proto:{:?}:{}", cfg.dd, a.split_whitespace().next().unwrap_or("")).to_lowercase(), what: a.clone() }); }
    for a in &out.alarms13 { f.push(Finding { prop: "C13", sig: format!("width:{:?}", cfg.dd).to_lowercase(), what: a.clone() }); }
    for a in &out.cache_alarms { f.push(Finding { prop: "C09", sig: format!("cache-contract:{:?}", cfg.dd).to_lowercase(), what: a.clone() }); }
    f
}
fn sgn(x: isize) -> &'static str { if x == isize::MIN { "min" } else if x == isize::MAX { "max" } else if x < 0 { "neg" } else if x == 0 { "zero" } else { "pos" } }

/// C02: solution / value / bounds coherence.  `uninterrupted`: the run was not cut off.
pub fn judge_solution(m: &dyn Model, out: &Out, _primal: Option<isize>, uninterrupted: bool) -> Vec<Finding> {
    let mut f = vec![];
    let mut bad = |sig: &str, what: String| f.push(Finding { prop: "C02", sig: format!("sol:{}", sig), what });
    if out.best_value.is_some() != out.best_solution.is_some() { bad("presence", format!("value {:?} but solution present = {}", out.best_value, out.best_solution.is_some())); }
    if out.completion_value != out.best_value { bad("completion-value", format!("Completion.best_value {:?} differs from best_value() {:?}", out.completion_value, out.best_value)); }
    if let Some(v) = out.best_value {
        if v != out.lb { bad("value-vs-lb", format!("best_value() {} differs from best_lower_bound() {}", v, out.lb)); }
        if let Some(sol) = &out.best_solution {
            match m.replay_full(sol) {
                Ok(rv) => { if rv != v { bad("replay-value", format!("solution {:?} replays to {} but the reported value is {}", fmt_sol(sol), rv, v)); } }
                Err(e) => bad("infeasible", format!("solution {:?} is not feasible: {}", fmt_sol(sol), e)),
            }
        }
        if uninterrupted && out.ub != v { bad("ub-after-exact-run", format!("after an uninterrupted run best_upper_bound() = {} but the value is {}", out.ub, v)); }
    } else if uninterrupted {
        if out.lb != isize::MIN || out.ub != isize::MIN { bad("bounds-infeasible", format!("no value after an uninterrupted run but lb={} ub={}", out.lb, out.ub)); }
    }
    f
}
pub fn fmt_sol(sol: &[Decision]) -> Vec<(usize, isize)> { sol.iter().map(|d| (d.variable.0, d.value)).collect() }

/// monitors of a run cut off at poll k (C05)
pub fn judge_cut(m: &dyn Model, cfg: &Cfg, out: &Out) -> Vec<Finding> {
    let mut f = vec![];
    if out.hang { f.push(Finding { prop: "C04", sig: format!("par1:cut:hang:{:?}", cfg.dd).to_lowercase(), what: "parallel maximize() with one worker and a cut-off did not return (two attempts)".to_string() }); return f; }
    let opt = m.opt();
    if let Some(p) = &out.panicked { f.push(Finding { prop: "C05", sig: format!("seq:cut:panic:{}", cfg.short()), what: format!("panicked: {}", p) }); return f; }
    let o = opt.unwrap_or(isize::MIN);
    if out.lb > o { f.push(Finding { prop: "C05", sig: format!("seq:cut:lb-above-opt:{:?}", cfg.dd).to_lowercase(), what: format!("lb {} > optimum {:?}", out.lb, opt) }); }
    if out.ub < o { f.push(Finding { prop: "C05", sig: format!("seq:cut:ub-below-opt:{:?}:{}", cfg.dd, if cfg.cache { "cache" } else { "nocache" }).to_lowercase(), what: format!("ub {} < optimum {:?} (lb {})", out.ub, opt, out.lb) }); }
    if opt.is_none() && out.best_value.is_some() { f.push(Finding { prop: "C05", sig: "seq:cut:value-for-infeasible".to_string(), what: format!("value {:?} reported for an infeasible problem", out.best_value) }); }
    if out.is_exact && out.best_value != opt { f.push(Finding { prop: "C05", sig: format!("seq:cut:exact-but-wrong:{:?}", cfg.dd).to_lowercase(), what: format!("is_exact but value {:?} != optimum {:?}", out.best_value, opt) }); }
    for x in judge_solution(m, out, None, false) { f.push(Finding { prop: "C05", sig: format!("seq:cut:{}", x.sig), what: x.what.clone() }); f.push(x); }
    f
}

fn record(agg: &mut Agg, rep: &Reporter, focus: &[&str], findings: Vec<Finding>, replay: impl Fn() -> Value) {
    for x in findings {
        *agg.monitor_hits.entry(format!("{}:{}", x.prop, x.sig)).or_insert(0) += 1;
        if focus.contains(&x.prop) {
            let mut r = replay();
            r["monitor_property"] = json!(x.prop);
            rep.violation(x.sig, x.what, r);
        }
    }
}

fn add_stats(agg: &mut Agg, out: &Out) {
    agg.merges += out.stats.merges as u64; agg.restricted += out.stats.restricted as u64; agg.relaxed += out.stats.relaxed as u64;
    agg.cache_hits += out.stats.cache_hits as u64; agg.dom_pruned += out.stats.dom_pruned as u64; agg.relax_calls += out.stats.relax_calls as u64;
    agg.layers_checked += out.stats.layers_checked as u64;
}

pub fn run_instance(rep: &Reporter, focus: &[&str], plan: &Plan, idx: u64, agg: &mut Agg) {
    let vars: Vec<Variant> = if plan.rotate { vec![plan.variants[(idx % plan.variants.len() as u64) as usize]] } else { plan.variants.clone() };
    for var in vars {
        let marc: std::sync::Arc<dyn Model> = std::sync::Arc::from(plan.fam.build(idx, var));
        let m: &dyn Model = marc.as_ref();
        // (a confirmed hang costs 140 s: a forked child of the sweep stops at its first one, the in-process sweep after twenty)
        if plan.par1 && agg.hangs >= if STRIPE.lock().unwrap().is_some() { 1 } else { 20 } { return; }
        let par1 = plan.par1;
        let hangs = std::cell::Cell::new(0u64);
        let solve = |spec: &RunSpec| -> Out {
            if !par1 { return run_seq(m, spec); }
            match run_par(marc.clone(), spec, 1) { Some(o) => o, None => { hangs.set(hangs.get() + 1); let mut o = Out::default(); o.hang = true; o } }
        };
        agg.instances += 1;
        if m.opt().is_none() { agg.infeasible_instances += 1; }
        if m.has_long_arcs() { agg.long_arc_instances += 1; }
        let id = plan.fam.id_json(idx, var);
        let mut by_cfg: Vec<(Cfg, Out)> = vec![];
        for cfg in plan.cfgs.iter() {
            let mut spec = RunSpec::plain(*cfg);
            spec.record = plan.record;
            let out = solve(&spec);
            agg.runs += 1;
            if out.explored >= 2 { agg.nontrivial += 1; }
            if !out.fuel_out { agg.max_fuel_permille = agg.max_fuel_permille.max((out.polls * 1000 / fuel_for(m).max(1)) as u64); }
            add_stats(agg, &out);
            *agg.outcomes.entry(format!("exact={} value={}", out.is_exact, match out.best_value { None => "none", Some(_) => "some" })).or_insert(0) += 1;
            if out.gap == 0.0 || out.gap.is_nan() { agg.gap_checked += 1; }
            if agg.samples.len() < 2 && out.explored >= 3 { agg.samples.push(json!({"instance": m.describe(), "cfg": cfg.json(), "outcome": out.json()})); }
            let fs = judge_plain_k(m, cfg, &out, None, par1);
            record(agg, rep, focus, fs, || json!({"engine": "bnb", "solver": if par1 { "parallel(1 worker)" } else { "sequential" }, "mode": "plain", "instance": id, "cfg": cfg.json(), "model": m.describe(), "outcome": out.json()}));
            match plan.mode {
                Mode::Plain => (),
                Mode::Cutoffs => {
                    if out.panicked.is_none() && !out.fuel_out {
                        let kmax = out.polls;
                        let mut prev: Option<(usize, isize, isize)> = None;
                        for k in 1..=kmax + 1 {
                            let o = if k == kmax + 1 { out.clone() } else { let mut s = RunSpec::plain(*cfg); s.fire_at = k; solve(&s) };
                            if k <= kmax {
                                agg.cut_runs += 1;
                                if o.explored >= 1 && !o.is_exact { agg.cut_nontrivial += 1; }
                                let fs = judge_cut(m, cfg, &o);
                                record(agg, rep, focus, fs, || json!({"engine": "bnb", "mode": "cutoff", "k": k, "instance": id, "cfg": cfg.json(), "model": m.describe(), "outcome": o.json()}));
                                if o.is_exact && o.panicked.is_none() {
                                    record(agg, rep, focus, vec![Finding { prop: "C05", sig: "seq:cut:exact-after-stop".to_string(), what: format!("cut-off answered stop at poll {} of {} but the run claims is_exact", k, kmax) }],
                                           || json!({"engine": "bnb", "mode": "cutoff", "k": k, "instance": id, "cfg": cfg.json(), "model": m.describe(), "outcome": o.json()}));
                                }
                            }
                            // C19 monotonicity on consecutive indices
                            if let Some((pk, plb, pub_)) = prev {
                                if o.panicked.is_none() && (o.lb < plb || o.ub > pub_) {
                                    let which = if o.lb < plb { "lb-decreases" } else { "ub-increases" };
                                    record(agg, rep, focus, vec![Finding { prop: "C19", sig: format!("mono:{}:{:?}:{}", which, cfg.dd, if cfg.nodup { "nodup" } else { "simple" }).to_lowercase(), what: format!("cut at poll {}: lb={} ub={}; cut at poll {}: lb={} ub={}", pk, plb, pub_, k, o.lb, o.ub) }],
                                           || json!({"engine": "bnb", "mode": "cutoff-pair", "k": pk, "k2": k, "instance": id, "cfg": cfg.json(), "model": m.describe()}));
                                }
                            }
                            if o.panicked.is_none() { prev = Some((k, o.lb, o.ub)); }
                            if k == kmax + 1 {
                                let optv = m.opt().unwrap_or(isize::MIN);
                                if !(o.is_exact && o.lb == optv && o.ub == optv) {
                                    record(agg, rep, focus, vec![Finding { prop: "C19", sig: "mono:final-not-exact".to_string(), what: format!("uninterrupted run: exact={} lb={} ub={} optimum={:?}", o.is_exact, o.lb, o.ub, m.opt()) }],
                                           || json!({"engine": "bnb", "mode": "plain", "instance": id, "cfg": cfg.json(), "model": m.describe()}));
                                }
                            }
                        }
                    }
                }
                Mode::Primal => {
                    let ach = m.achievable();
                    for (pi, (p, wit)) in ach.iter().enumerate() {
                        let mut s = RunSpec::plain(*cfg);
                        s.primal = Some((*p, wit.clone()));
                        // exercise the replace-only-when-strictly-greater rule with a second call
                        if pi > 0 { s.primal2 = Some((ach[pi - 1].0, ach[pi - 1].1.clone())); }
                        let o = solve(&s);
                        agg.primal_runs += 1;
                        if Some(*p) < m.opt() { agg.primal_below_opt += 1; }
                        let fs = judge_plain_k(m, cfg, &o, Some(*p), par1);
                        record(agg, rep, focus, fs, || json!({"engine": "bnb", "mode": "primal", "primal": p, "witness": fmt_sol(wit), "instance": id, "cfg": cfg.json(), "model": m.describe(), "outcome": o.json()}));
                        // when the primal is optimal and the value equals it, the solution must be feasible for it (witness or own)
                        if let (Some(v), Some(sol)) = (o.best_value, &o.best_solution) {
                            if m.replay_full(sol).ok() != Some(v) {
                                record(agg, rep, focus, vec![Finding { prop: "C14", sig: "primal:solution-mismatch".to_string(), what: format!("with primal {} the final value {} comes with solution {:?} which replays to {:?}", p, v, fmt_sol(sol), m.replay_full(sol)) }],
                                       || json!({"engine": "bnb", "mode": "primal", "primal": p, "witness": fmt_sol(wit), "instance": id, "cfg": cfg.json(), "model": m.describe(), "outcome": o.json()}));
                            }
                        }
                    }
                    // set_primal semantics in isolation: equal value keeps the first solution
                    if let Some((p, wit)) = ach.last() {
                        let mut s = RunSpec::plain(*cfg);
                        s.fire_at = 1; // stop at the first poll: the incumbent is what set_primal left
                        let other: Vec<Decision> = ach.first().unwrap().1.clone();
                        s.primal = Some((*p, wit.clone()));
                        s.primal2 = Some((*p, other.clone()));
                        let o = solve(&s);
                        agg.primal_runs += 1;
                        if o.polls >= 1 && o.panicked.is_none() && wit != &other {
                            let mut got = o.best_solution.clone().unwrap_or_default();
                            got.sort_unstable_by_key(|d| d.variable.0);
                            let mut exp = wit.clone();
                            exp.sort_unstable_by_key(|d| d.variable.0);
                            if o.best_value != Some(*p) || got != exp {
                                record(agg, rep, focus, vec![Finding { prop: "C14", sig: "primal:set_primal-replaced-on-equal".to_string(), what: format!("set_primal({p}, A) then set_primal({p}, B): incumbent is {:?} / {:?}", o.best_value, fmt_sol(&got)) }],
                                       || json!({"engine": "bnb", "mode": "set_primal", "instance": id, "cfg": cfg.json(), "model": m.describe(), "outcome": o.json()}));
                            }
                        }
                    }
                }
            }
            by_cfg.push((*cfg, out));
        }
        agg.hangs += hangs.get();
        // C09: caching vs non caching twins
        for (c, o) in by_cfg.iter().filter(|(c, _)| c.cache) {
            if let Some((_, t)) = by_cfg.iter().find(|(c2, _)| !c2.cache && c2.dd == c.dd && c2.nodup == c.nodup && c2.width == c.width) {
                agg.twin_pairs += 1;
                if o.explored != t.explored { agg.cache_twin_diff_explored += 1; }
                if o.panicked.is_none() && t.panicked.is_none() && !o.fuel_out && !t.fuel_out && o.best_value != t.best_value {
                    record(agg, rep, focus, vec![Finding { prop: "C09", sig: format!("twin:{:?}:{}", c.dd, if c.nodup { "nodup" } else { "simple" }).to_lowercase(), what: format!("caching solver value {:?} differs from its non caching twin {:?} (optimum {:?})", o.best_value, t.best_value, m.opt()) }],
                           || json!({"engine": "bnb", "mode": "plain", "instance": id, "cfg": c.json(), "model": m.describe(), "outcome": o.json()}));
                }
            }
        }
    }
}

pub fn vshort(v: &Variant) -> String {
    format!("{}{}{}rub={:?},dom={:?},rank={:?}{}", if v.flat { "flat," } else { "depth," }, if v.bonus { "bonus," } else { "" }, if v.la { "longarcs," } else { "" }, v.rub, v.dom, v.rank, if v.revperm { ",revperm" } else { "" })
}

extern "C" { fn fork() -> i32; fn _exit(code: i32) -> !; fn waitpid(pid: i32, status: *mut i32, options: i32) -> i32; }
/// (stripe, number of stripes) of a forked child of the single-worker sweeps
static STRIPE: std::sync::Mutex<Option<(u64, u64)>> = std::sync::Mutex::new(None);

/// The single-worker sweeps of the parallel solver are bound by thread creation inside ONE address space (1.9e4 runs per
/// second with one harness thread, fewer with more).  They are therefore farmed out to one forked child PROCESS per core:
/// child k runs the instances i with i mod N == k of every plan on one thread pinned to core k and hands its counters and
/// its violations back through a file; the parent merges them (every violation goes through the parent's reporter, so
/// known-finding matching and the three-per-signature limit are applied once).  Plans, models and the reporter need no
/// serialisation: the child is a copy of the parent.  Falls back to the in-process sweep when a fork fails.
pub fn run_plans(rep: &Reporter, focus: &[&str], plans: &[Plan], deadline: Option<Instant>) -> (Agg, Vec<Value>, bool) {
    let n = nthreads() as u64;
    let forked = STRIPE.lock().unwrap().is_some();
    if forked || n < 2 || plans.is_empty() || !plans.iter().all(|p| p.par1) || std::env::var("VERIF_KNOWN_GEN").is_ok() || std::env::var("VERIF_NO_FORK").is_ok() { return run_plans_here(rep, focus, plans, deadline); }
    let dir = std::env::var("VERIF_BUILD").unwrap_or_else(|_| format!("{}/.build", verif_dir()));
    let base = rep.violations.lock().unwrap().len();
    let mut kids: Vec<(i32, String)> = vec![];
    for k in 0..n {
        let file = format!("{}/par1-{}-{}-{}.json", dir, rep.property, std::process::id(), k);
        let _ = std::fs::remove_file(&file);
        let pid = unsafe { fork() };
        if pid == 0 {
            // child: one stripe, one thread, its own core
            *STRIPE.lock().unwrap() = Some((k, n));
            PIN_OFFSET.store(k as usize, std::sync::atomic::Ordering::SeqCst);
            let r = std::panic::catch_unwind(std::panic::AssertUnwindSafe(|| run_plans_here(rep, focus, plans, deadline)));
            if let Ok((agg, scopes, complete)) = r {
                let viol: Vec<Value> = rep.violations.lock().unwrap().iter().skip(base).map(|v| json!({"sig": v.sig, "what": v.what, "replay": v.replay})).collect();
                let errs: Vec<String> = rep.engine_errors.lock().unwrap().clone();
                let out = json!({"agg": agg.to_json(), "scopes": scopes, "complete": complete, "violations": viol, "engine_errors": errs});
                let tmp = format!("{}.tmp", file);
                if std::fs::write(&tmp, serde_json::to_string(&out).unwrap_or_default()).is_ok() { let _ = std::fs::rename(&tmp, &file); }
                unsafe { _exit(0) }
            }
            unsafe { _exit(3) }
        }
        if pid < 0 { break; }
        kids.push((pid, file));
    }
    if kids.len() as u64 != n {
        // could not create every child: wait for those which exist, ignore what they did, do the work here
        for (pid, file) in kids.iter() { let mut st = 0; unsafe { waitpid(*pid, &mut st, 0); } let _ = std::fs::remove_file(file); }
        return run_plans_here(rep, focus, plans, deadline);
    }
    let mut total = Agg::default();
    let mut scopes: Vec<Value> = vec![];
    let mut all_complete = true;
    let errs0 = rep.engine_errors.lock().unwrap().len();
    for (k, (pid, file)) in kids.iter().enumerate() {
        let mut st = 0;
        unsafe { waitpid(*pid, &mut st, 0); }
        let v: Option<Value> = std::fs::read_to_string(file).ok().and_then(|t| serde_json::from_str(&t).ok());
        let _ = std::fs::remove_file(file);
        match v {
            None => { all_complete = false; rep.engine_error(format!("child process {} of the single-worker sweep ended without a result (wait status {})", k, st)); }
            Some(v) => {
                total.merge(Agg::from_json(&v["agg"]));
                if !v["complete"].as_bool().unwrap_or(false) { all_complete = false; }
                for x in v["violations"].as_array().cloned().unwrap_or_default() { rep.violation(x["sig"].as_str().unwrap_or("").to_string(), x["what"].as_str().unwrap_or("").to_string(), x["replay"].clone()); }
                for e in v["engine_errors"].as_array().cloned().unwrap_or_default().into_iter().skip(errs0) { rep.engine_error(e.as_str().unwrap_or("").to_string()); }
                // per family: a child passes over every index and runs its own residue class; the slowest child tells how far all got
                for (j, sc) in v["scopes"].as_array().cloned().unwrap_or_default().into_iter().enumerate() {
                    if k == 0 { scopes.push(sc); } else if let Some(t) = scopes.get_mut(j) {
                        let d = t["instances_done"].as_u64().unwrap_or(0).min(sc["instances_done"].as_u64().unwrap_or(0));
                        t["instances_done"] = json!(d);
                        t["complete"] = json!(t["complete"].as_bool().unwrap_or(false) && sc["complete"].as_bool().unwrap_or(false));
                        t["solver_runs"] = json!(t["solver_runs"].as_u64().unwrap_or(0) + sc["solver_runs"].as_u64().unwrap_or(0));
                        t["wall_s"] = json!(t["wall_s"].as_f64().unwrap_or(0.0).max(sc["wall_s"].as_f64().unwrap_or(0.0)));
                    }
                }
            }
        }
    }
    for t in scopes.iter_mut() { t["processes"] = json!(n); }
    (total, scopes, all_complete)
}

fn run_plans_here(rep: &Reporter, focus: &[&str], plans: &[Plan], deadline: Option<Instant>) -> (Agg, Vec<Value>, bool) {
    // cheapest scopes first: a wall clock cap (loaded machine) then only cuts the largest enumerations
    if plans.iter().any(|p| p.par1) { crate::rec::install_light_hook(); }
    let mut sorted: Vec<&Plan> = plans.iter().collect();
    sorted.sort_by_key(|p| p.limit.map_or(p.fam.count(), |l| l.min(p.fam.count())) * if p.rotate { 1 } else { p.variants.len() as u64 } * p.cfgs.len() as u64);
    // maintenance knob (never set by a registered command): only the plans of one family, e.g. to regenerate a list of known inputs
    if let Ok(only) = std::env::var("VERIF_ONLY_FAMILY") { sorted.retain(|p| p.fam.name() == only); }
    let mut total = Agg::default();
    let mut scopes = vec![];
    let mut all_complete = true;
    for plan in sorted {
        let n = plan.limit.map_or(plan.fam.count(), |l| l.min(plan.fam.count()));
        let t0 = Instant::now();
        let chunk = (n / (nthreads() as u64 * 8)).clamp(1, 4096);
        // the single-worker sweeps create two threads per solver run (the solver's worker and the helper which makes a hang
        // observable): measured in this VM, ONE harness thread makes 1.9e4 such runs per second, two make 1.5e4, four 5e3 and
        // sixteen 4e3 (thread creation and exit serialise on the address space of the process): these plans use one thread
        let nt = if plan.par1 && std::env::var("VERIF_THREADS").is_err() { 1 } else { crate::par::nthreads() };
        let stripe = *STRIPE.lock().unwrap();
        let res = par_run_n::<Agg, _>(n, chunk, deadline, rep.seed, nt, |i, agg| { if let Some((k, m)) = stripe { if i % m != k { return; } } run_instance(rep, focus, plan, i, agg) });
        let mut runs = 0;
        for l in res.locals { runs += l.runs + l.cut_runs + l.primal_runs; total.merge(l); }
        if res.capped || res.done < n { all_complete = false; }
        scopes.push(json!({"family": plan.fam.name(), "family_size": plan.fam.count(), "instances_planned": n, "instances_done": res.done, "complete": res.done == n,
                           "variants": if plan.rotate { json!(format!("rotating: instance i runs under variant i mod {} of {:?}", plan.variants.len(), plan.variants.iter().map(vshort).collect::<Vec<_>>())) } else { json!(plan.variants.iter().map(vshort).collect::<Vec<_>>()) },
                           "configurations": plan.cfgs.len(), "mode": format!("{:?}", plan.mode), "solver_runs": runs, "wall_s": t0.elapsed().as_secs_f64()}));
    }
    (total, scopes, all_complete)
}
