//! E4: explicit-state breadth-first search over operation sequences of the REAL containers
//! (both fringes, SimpleDominanceChecker, SimpleCache).  A state is the history reaching it; successors are
//! built by replaying the history on a fresh real object plus one more operation; the search key is
//! (fingerprint of the real object, state of the reference model), so merged states have identical futures.
//! The search runs to a fixpoint: every operation sequence of every length over the alphabet is covered.
use crate::par::*;
use crate::report::*;
use ddo::*;
use serde_json::{json, Value};
use std::cmp::Ordering;
use std::collections::hash_map::DefaultHasher;
use std::collections::{BTreeMap, BTreeSet, HashSet};
use std::hash::{Hash, Hasher};
use std::sync::Arc;
use std::time::{Duration, Instant};

fn h128<T: Hash>(x: &T) -> u128 {
    let mut a = DefaultHasher::new();
    x.hash(&mut a);
    let mut b = DefaultHasher::new();
    0x5bd1e995u64.hash(&mut b);
    x.hash(&mut b);
    ((a.finish() as u128) << 64) | b.finish() as u128
}

pub enum Step { Disabled, Next(u128), Bad(String, String) }

pub struct BfsResult { pub states: u64, pub transitions: u64, pub depth: usize, pub fixpoint: bool, pub capped: Option<String>, pub sample: Vec<Vec<u16>> }

/// level synchronous BFS; `eval(history, op)` replays the history on a fresh real object and applies op with all checks
pub fn bfs<F: Fn(&[u16], u16) -> Step + Sync>(rep: &Reporter, engine: &str, nops: u16, max_states: u64, deadline: Instant, describe: &(dyn Fn(&[u16]) -> Value + Sync), eval: F) -> BfsResult {
    let mut seen: HashSet<u128> = HashSet::new();
    let mut frontier: Vec<Vec<u16>> = vec![vec![]];
    // the key of the initial state is not known without a step: use a reserved key
    seen.insert(0);
    let mut transitions = 0u64;
    let mut depth = 0usize;
    let mut sample: Vec<Vec<u16>> = vec![];
    let mut capped = None;
    while !frontier.is_empty() {
        #[derive(Default)]
        struct Local { succ: Vec<(u128, Vec<u16>)>, transitions: u64, bad: Vec<(String, String, Vec<u16>)> }
        let fr = &frontier;
        let res = par_run::<Local, _>(fr.len() as u64, 64, Some(deadline), 0, |i, l| {
            let hist = &fr[i as usize];
            for op in 0..nops {
                match eval(hist, op) {
                    Step::Disabled => (),
                    Step::Next(k) => { l.transitions += 1; let mut h = hist.clone(); h.push(op); l.succ.push((k, h)); }
                    Step::Bad(sig, what) => { l.transitions += 1; let mut h = hist.clone(); h.push(op); if l.bad.len() < 4 { l.bad.push((sig, what, h)); } }
                }
            }
        });
        if res.capped || res.done < fr.len() as u64 { capped = Some(format!("wall clock cap hit at BFS depth {} ({} of {} frontier states expanded)", depth, res.done, fr.len())); }
        let mut next = vec![];
        for l in res.locals {
            transitions += l.transitions;
            for (sig, what, h) in l.bad { rep.violation(sig, what, json!({"engine": engine, "history": describe(&h), "ops": h})); }
            for (k, h) in l.succ { if seen.insert(k) { if sample.len() < 3 && h.len() >= 3 { sample.push(h.clone()); } next.push(h); } }
        }
        if capped.is_some() { break; }
        if seen.len() as u64 > max_states { capped = Some(format!("state cap {} hit at BFS depth {}", max_states, depth)); break; }
        if !next.is_empty() { depth += 1; }
        // deterministic order
        next.sort();
        frontier = next;
    }
    BfsResult { states: seen.len() as u64, transitions, depth, fixpoint: capped.is_none(), capped, sample }
}

// ------------------------------------------------------------------------------------------------
// C11: fringes
// ------------------------------------------------------------------------------------------------
#[derive(Clone, Copy)]
struct NatRank;
impl StateRanking for NatRank { type State = u8; fn compare(&self, a: &u8, b: &u8) -> Ordering { a.cmp(b) } }
static NAT: NatRank = NatRank;

#[derive(Clone, Copy, Debug, PartialEq, Eq, Hash, PartialOrd, Ord)]
struct Item { state: u8, depth: u8, value: i8, ub: i8 }
fn item_path(i: &Item) -> Vec<Decision> { vec![Decision { variable: Variable(i.state as usize * 16 + i.depth as usize), value: i.value as isize * 16 + i.ub as isize }] }
fn to_sub(i: &Item) -> SubProblem<u8> { SubProblem { state: Arc::new(i.state), value: i.value as isize, path: item_path(i), ub: i.ub as isize, depth: i.depth as usize } }

#[derive(Clone, Debug)]
enum FOp { Push(Item), Pop, Clear }

fn fringe_alphabet(ids: &[(u8, u8)], ubs: &[i8]) -> Vec<FOp> {
    let mut v = vec![];
    for (s, d) in ids { for value in [0i8, 1] { for ub in ubs.iter() { v.push(FOp::Push(Item { state: *s, depth: *d, value, ub: *ub })); } } }
    v.push(FOp::Pop);
    v.push(FOp::Clear);
    v
}

/// reference of the duplicate free fringe: (state, depth) -> (value, acceptable paths = ub tags of the pushes holding the max value, ub)
#[derive(Clone, Debug, Default, Hash, PartialEq, Eq)]
struct RefNoDup { m: BTreeMap<(u8, u8), (i8, BTreeSet<i8>, i8)> }
/// reference of the simple fringe: a multiset
#[derive(Clone, Debug, Default, Hash, PartialEq, Eq)]
struct RefMulti { m: BTreeMap<Item, u8> }

trait FringeRef: Default + Hash + Clone {
    fn push(&mut self, i: &Item);
    fn len(&self) -> usize;
    fn clear(&mut self);
    /// checks a popped sub-problem and removes it; Err = description of the disagreement
    fn pop_check(&mut self, got: Option<&SubProblem<u8>>) -> Result<(), String>;
}
fn rank_key(ub: isize, value: isize, state: u8) -> (isize, isize, u8) { (ub, value, state) }
impl FringeRef for RefNoDup {
    fn push(&mut self, i: &Item) {
        match self.m.get_mut(&(i.state, i.depth)) {
            None => { self.m.insert((i.state, i.depth), (i.value, [i.ub].into_iter().collect(), i.ub)); }
            Some(e) => {
                if i.value > e.0 { e.0 = i.value; e.1 = [i.ub].into_iter().collect(); } else if i.value == e.0 { e.1.insert(i.ub); }
                e.2 = e.2.max(i.ub);
            }
        }
    }
    fn len(&self) -> usize { self.m.len() }
    fn clear(&mut self) { self.m.clear() }
    fn pop_check(&mut self, got: Option<&SubProblem<u8>>) -> Result<(), String> {
        match got {
            None => if self.m.is_empty() { Ok(()) } else { Err(format!("pop returned None but {} sub-problems are open", self.m.len())) },
            Some(g) => {
                let key = (*g.state, g.depth as u8);
                let e = match self.m.get(&key) { None => return Err(format!("pop invented sub-problem (state {}, depth {}) which is not in the fringe", g.state, g.depth)), Some(e) => e.clone() };
                if g.value != e.0 as isize { return Err(format!("popped (state {}, depth {}) with value {} but the largest value pushed for it is {}", g.state, g.depth, g.value, e.0)); }
                if g.ub != e.2 as isize { return Err(format!("popped (state {}, depth {}) with ub {} but the largest ub pushed for it is {}", g.state, g.depth, g.ub, e.2)); }
                let ok_path = e.1.iter().any(|tag| g.path == item_path(&Item { state: key.0, depth: key.1, value: e.0, ub: *tag }));
                if !ok_path { return Err(format!("popped (state {}, depth {}) value {} with a path {:?} which is not the path of a push holding that value", g.state, g.depth, g.value, g.path)); }
                let mine = rank_key(g.ub, g.value, *g.state);
                if let Some((k, o)) = self.m.iter().find(|(k, o)| rank_key(o.2 as isize, o.0 as isize, k.0) > mine) { return Err(format!("popped (state {}, depth {}, value {}, ub {}) although (state {}, depth {}, value {}, ub {}) ranks higher", g.state, g.depth, g.value, g.ub, k.0, k.1, o.0, o.2)); }
                self.m.remove(&key);
                Ok(())
            }
        }
    }
}
impl FringeRef for RefMulti {
    fn push(&mut self, i: &Item) { *self.m.entry(*i).or_insert(0) += 1; }
    fn len(&self) -> usize { self.m.values().map(|c| *c as usize).sum() }
    fn clear(&mut self) { self.m.clear() }
    fn pop_check(&mut self, got: Option<&SubProblem<u8>>) -> Result<(), String> {
        match got {
            None => if self.m.is_empty() { Ok(()) } else { Err(format!("pop returned None but {} sub-problems are open", self.len())) },
            Some(g) => {
                let it = Item { state: *g.state, depth: g.depth as u8, value: g.value as i8, ub: g.ub as i8 };
                if !self.m.contains_key(&it) || g.path != item_path(&it) { return Err(format!("pop invented sub-problem {:?} / path {:?}", it, g.path)); }
                let mine = rank_key(g.ub, g.value, *g.state);
                if let Some(o) = self.m.keys().find(|o| rank_key(o.ub as isize, o.value as isize, o.state) > mine) { return Err(format!("popped {:?} although {:?} ranks higher", it, o)); }
                let c = self.m.get_mut(&it).unwrap();
                *c -= 1;
                if *c == 0 { self.m.remove(&it); }
                Ok(())
            }
        }
    }
}

trait RealFringe { fn make() -> Self; fn fr(&mut self) -> &mut dyn Fringe<State = u8>; fn fp(&self) -> Vec<u64>; const BOUND: Option<usize>; const NAME: &'static str; }
struct RNoDup(NoDupFringe<MaxUB<'static, NatRank>>);
struct RSimple(SimpleFringe<MaxUB<'static, NatRank>>);
/// Canonical form of the NoDupFringe fingerprint: the payload and position of the slots which sit in the recycle bin
/// are dead (push overwrites both before anything reads them, pop/len/clear never look at them), so they are blanked.
/// Layout of the hook: [n, heap.., n, pos.., n, recycle_bin.., n, (state hash, depth, value, ub, path len, path..)*, n, index..]
fn canon_nodup(fp: Vec<u64>) -> Vec<u64> {
    let mut i = 0;
    let mut out = vec![];
    let hl = fp[i] as usize; out.extend_from_slice(&fp[i..i + 1 + hl]); i += 1 + hl;
    let pl = fp[i] as usize; let pos_at = out.len() + 1; out.extend_from_slice(&fp[i..i + 1 + pl]); i += 1 + pl;
    let bl = fp[i] as usize; let bin: Vec<usize> = fp[i + 1..i + 1 + bl].iter().map(|x| *x as usize).collect(); out.extend_from_slice(&fp[i..i + 1 + bl]); i += 1 + bl;
    for b in bin.iter() { out[pos_at + *b] = u64::MAX; }
    let nl = fp[i] as usize; out.push(fp[i]); i += 1;
    for id in 0..nl {
        let plen = fp[i + 4] as usize;
        let len = 5 + 2 * plen;
        if bin.contains(&id) { out.push(u64::MAX); } else { out.extend_from_slice(&fp[i..i + len]); }
        i += len;
    }
    out.extend_from_slice(&fp[i..]);
    out
}
impl RealFringe for RNoDup { fn make() -> Self { RNoDup(NoDupFringe::new(MaxUB::new(&NAT))) } fn fr(&mut self) -> &mut dyn Fringe<State = u8> { &mut self.0 } fn fp(&self) -> Vec<u64> { canon_nodup(self.0.verif_fingerprint()) } const BOUND: Option<usize> = None; const NAME: &'static str = "nodup"; }
impl RealFringe for RSimple { fn make() -> Self { RSimple(SimpleFringe::new(MaxUB::new(&NAT))) } fn fr(&mut self) -> &mut dyn Fringe<State = u8> { &mut self.0 } fn fp(&self) -> Vec<u64> { self.0.verif_fingerprint() } const BOUND: Option<usize> = Some(5); const NAME: &'static str = "simple"; }

fn fringe_eval<R: RealFringe, M: FringeRef>(alpha: &[FOp], bound: Option<usize>, hist: &[u16], op: u16) -> Step {
    let mut real = R::make();
    let mut model = M::default();
    let r = std::panic::catch_unwind(std::panic::AssertUnwindSafe(|| {
        for o in hist {
            match &alpha[*o as usize] {
                FOp::Push(i) => { real.fr().push(to_sub(i)); model.push(i); }
                FOp::Pop => { let g = real.fr().pop(); let _ = model.pop_check(g.as_ref()); }
                FOp::Clear => { real.fr().clear(); model.clear(); }
            }
        }
        let last_ub_before: Option<isize> = None;
        let _ = last_ub_before;
        match &alpha[op as usize] {
            FOp::Push(i) => {
                if let Some(b) = bound { if model.len() >= b { return Step::Disabled; } }
                real.fr().push(to_sub(i));
                model.push(i);
            }
            FOp::Pop => {
                let g = real.fr().pop();
                if let Err(e) = model.pop_check(g.as_ref()) { return Step::Bad(format!("fringe:{}:pop", R::NAME), e); }
            }
            FOp::Clear => { real.fr().clear(); model.clear(); }
        }
        if real.fr().len() != model.len() { return Step::Bad(format!("fringe:{}:len", R::NAME), format!("len() = {} but {} distinct sub-problems are open", real.fr().len(), model.len())); }
        if real.fr().is_empty() != (model.len() == 0) { return Step::Bad(format!("fringe:{}:is_empty", R::NAME), format!("is_empty() = {} but {} sub-problems are open", real.fr().is_empty(), model.len())); }
        Step::Next(h128(&(real.fp(), &model)))
    }));
    match r { Ok(s) => s, Err(_) => Step::Bad(format!("fringe:{}:panic", R::NAME), format!("panicked: {}", crate::run::take_panic_msg())) }
}

fn c11(rep: &Reporter) -> i32 {
    let th = rep.thorough();
    let deadline = Instant::now() + Duration::from_secs(if th { 1500 } else { 40 });
    let ids4: Vec<(u8, u8)> = vec![(0, 0), (0, 1), (1, 0), (2, 0)];
    let ids5: Vec<(u8, u8)> = vec![(0, 0), (0, 1), (1, 0), (1, 1), (2, 0)];
    // (name, alphabet, content bound of the simple fringe)
    let mut alphabets = vec![("4 sub-problem ids x 2 values x 2 ubs", fringe_alphabet(&ids4, &[1, 2]), 5usize)];
    if th {
        alphabets.push(("4 sub-problem ids x 2 values x 3 ubs", fringe_alphabet(&ids4, &[1, 2, 3]), 5));
        alphabets.push(("5 sub-problem ids x 2 values x 2 ubs", fringe_alphabet(&ids5, &[1, 2]), 6));
    }
    let mut runs = vec![];
    let (mut states, mut transitions, mut fix) = (0u64, 0u64, true);
    let mut samples = vec![];
    for (name, alpha, bound) in alphabets.iter() {
        let describe = |h: &[u16]| json!(h.iter().map(|o| format!("{:?}", alpha[*o as usize])).collect::<Vec<_>>());
        let a = alpha;
        let nd = bfs(rep, "ops-fringe-nodup", alpha.len() as u16, 40_000_000, deadline, &describe, |h, op| fringe_eval::<RNoDup, RefNoDup>(a, None, h, op));
        let sf = bfs(rep, "ops-fringe-simple", alpha.len() as u16, 40_000_000, deadline, &describe, |h, op| fringe_eval::<RSimple, RefMulti>(a, Some(*bound), h, op));
        states += nd.states + sf.states; transitions += nd.transitions + sf.transitions; fix &= nd.fixpoint && sf.fixpoint;
        if samples.len() < 4 { for h in nd.sample.iter().take(1).chain(sf.sample.iter().take(1)) { samples.push(describe(h)); } }
        runs.push(json!({"alphabet": name, "operations": alpha.len(),
            "nodup": {"states": nd.states, "transitions": nd.transitions, "bfs_depth": nd.depth, "fixpoint_reached": nd.fixpoint, "cap": nd.capped},
            "simple": {"states": sf.states, "transitions": sf.transitions, "bfs_depth": sf.depth, "fixpoint_reached": sf.fixpoint, "cap": sf.capped, "content_bound": bound}}));
    }
    // solver level: depth-free models, NoDupFringe vs SimpleFringe vs oracle
    let (agg, scopes, complete) = solver_level(rep, "C11");
    let cov = json!({
        "states": states, "transitions": transitions, "traces_validated_against_impl": transitions, "samples": samples,
        "evaluations": transitions + agg.runs, "distinct_nontrivial": states,
        "rule": "explicit-state BFS over push/pop/clear on the real NoDupFringe<MaxUB> and SimpleFringe<MaxUB>; every transition is executed on the real object (replayed from scratch) and compared with the reference (map keyed by (state, depth) -> (max value with that value's own path, max ub) / multiset): len(), is_empty(), pop returns an arg-max under (ub, value, state ranking) identical in all five fields to what the reference holds, clear empties; state key = (canonical verif_fingerprint of the real object, reference state); distinct_nontrivial = distinct reachable states",
        "exhaustive": fix && complete, "runs": runs,
        "solver_level": {"scopes": scopes, "runs": agg.runs, "runs_with_2+_subproblems": agg.nontrivial, "monitor_hits_all_properties": agg.monitor_hits},
    });
    rep.finish("model_checking", cov, vec![
        "every explored transition is an execution of the real container, so the number of validated traces equals the number of transitions".to_string(),
        "the SimpleFringe search is bounded to a content of 5 / 6 items because duplicates make its state space infinite".to_string(),
        "state matching merges two histories only when the internal representation (fingerprint hook; dead recycled slots blanked) AND the reference state are identical".to_string(),
    ])
}

fn solver_level(rep: &Reporter, prop: &str) -> (crate::bnb::Agg, Vec<Value>, bool) {
    use crate::bnb::*;
    use crate::checks::*;
    use crate::family::family;
    use crate::run::Cfg;
    let th = rep.thorough();
    let cfgs = Cfg::full(&[1, 2, 3]);
    let mk = |name: &str, variants: Vec<crate::model::Variant>, rotate: bool, limit: Option<u64>| Plan { fam: family(name), variants, rotate, cfgs: cfgs.clone(), mode: Mode::Plain, record: true, limit, par1: false };
    let plans = match prop {
        "C11" => vec![
            mk("TM-B4", variants_flat(), true, Some(if th { 16384 } else { 4000 })),
            mk("TM-N0.1", variants_flat(), true, None),
            mk("TM-N1.1", variants_flat(), true, None),
            mk("SP-3", variants_sp(), false, None),
            mk("SP-4", variants_sp(), true, Some(if th { 5184 } else { 1500 })),
        ],
        _ => vec![
            mk("TM-B4", variants_dom(), true, Some(if th { 16384 } else { 4000 })),
            mk("TM-N0.1", variants_dom(), false, None),
            mk("TM-N1.1", variants_dom(), false, None),
            mk("TM-N2.1", variants_dom(), true, None),
            mk("TM-N3.1", variants_dom(), true, None),
            mk("KP-2", variants_kp(), false, None),
            mk("KP-3", variants_kp(), false, None),
            mk("KP-4", variants_kp(), true, None),
            mk("KP-5", variants_kp(), true, Some(if th { 413_343 } else { 60_000 })),
            mk("KPB-6", variants_kp(), true, None),
            mk("KPH-0", variants_kp(), false, None),
            mk("KPH-1", variants_kp(), false, None),
            mk("KPH-2", variants_kp(), false, None),
            // set packing with a CONTENT DEPENDENT variable order and the superset dominance rule (as a user of the misp example who adds
            // a rule): entries recorded for nodes which are never developed are not derived again under another order (D13 family)
            mk("SP-3", variants_sp_dom(), false, None),
            mk("SP-4", variants_sp_dom(), true, Some(if th { 5184 } else { 2000 })),
            // the complete 5-layer butterfly family under the weakened rule with bonus relaxation (width 1: the restricted
            // diagram truncates what it records in the dominance store -- input of the known finding D13)
            Plan { fam: family("TM-B5"), variants: variants_dom().into_iter().filter(|v| v.dom == crate::model::Dom::Weak && v.bonus && v.rank == crate::model::Rank::Asc).collect(), rotate: false,
                   cfgs: Cfg::full(&[1]), mode: Mode::Plain, record: true, limit: None, par1: false },
        ],
    };
    let deadline = Some(Instant::now() + Duration::from_secs(cap_secs(if th { 900 } else { 35 })));
    run_plans(rep, &[prop], &plans, deadline)
}

// ------------------------------------------------------------------------------------------------
// C10: dominance checker
// ------------------------------------------------------------------------------------------------
#[derive(Clone, Copy, Debug, PartialEq, Eq, Hash, PartialOrd, Ord)]
struct DState { key: Option<u8>, c: [i8; 2] }
#[derive(Debug)]
struct TestDom { dims: usize, use_value: bool }
impl Dominance for TestDom {
    type State = DState;
    type Key = u8;
    fn get_key(&self, s: Arc<DState>) -> Option<u8> { s.key }
    fn nb_dimensions(&self, _: &DState) -> usize { self.dims }
    fn get_coordinate(&self, s: &DState, i: usize) -> isize { s.c[i] as isize }
    fn use_value(&self) -> bool { self.use_value }
}
#[derive(Clone, Debug)]
enum DOp { Query { s: DState, depth: u8, value: i8 }, ClearLayer(u8) }

#[derive(Clone, Debug, Default, Hash, PartialEq, Eq)]
struct RefDom { fronts: BTreeMap<(u8, u8), BTreeSet<([i8; 2], i8)>> }
impl RefDom {
    fn ge(dims: usize, uv: bool, a: &([i8; 2], i8), b: &([i8; 2], i8)) -> bool { (0..dims).all(|i| a.0[i] >= b.0[i]) && (!uv || a.1 >= b.1) }
    fn gt(dims: usize, uv: bool, a: &([i8; 2], i8), b: &([i8; 2], i8)) -> bool { Self::ge(dims, uv, a, b) && ((0..dims).any(|i| a.0[i] > b.0[i]) || (uv && a.1 > b.1)) }
    /// returns whether q is dominated; updates the front otherwise
    fn query(&mut self, dims: usize, uv: bool, depth: u8, s: &DState, value: i8) -> bool {
        let key = match s.key { None => return false, Some(k) => k };
        let q = (s.c, if uv { value } else { 0 });
        let front = self.fronts.entry((depth, key)).or_default();
        if front.iter().any(|e| Self::gt(dims, uv, e, &q)) { return true; }
        front.retain(|e| !Self::ge(dims, uv, &q, e));
        front.insert(q);
        false
    }
}

fn dom_eval(alpha: &[DOp], dims: usize, uv: bool, ndepth: usize, probes: &[i8], hist: &[u16], op: u16) -> Step {
    let build = |hist: &[u16]| -> (SimpleDominanceChecker<TestDom>, RefDom) {
        let real = SimpleDominanceChecker::new(TestDom { dims, use_value: uv }, ndepth - 1);
        let mut model = RefDom::default();
        for o in hist {
            match &alpha[*o as usize] {
                DOp::Query { s, depth, value } => { let _ = real.is_dominated_or_insert(Arc::new(*s), *depth as usize, *value as isize); let _ = model.query(dims, uv, *depth, s, *value); }
                DOp::ClearLayer(d) => { real.clear_layer(*d as usize); model.fronts.retain(|k, _| k.0 != *d); }
            }
        }
        (real, model)
    };
    let r = std::panic::catch_unwind(std::panic::AssertUnwindSafe(|| {
        let (real, mut model) = build(hist);
        match &alpha[op as usize] {
            DOp::Query { s, depth, value } => {
                let got = real.is_dominated_or_insert(Arc::new(*s), *depth as usize, *value as isize);
                let exp = model.query(dims, uv, *depth, s, *value);
                if got.dominated != exp {
                    return Step::Bad(format!("dominance:verdict:{}", if exp { "missed" } else { "spurious" }), format!("query {:?} depth {} value {}: checker says dominated = {} but the Pareto front of the recorded states says {}", s, depth, value, got.dominated, exp));
                }
                if s.key.is_none() && (got.dominated || got.threshold.is_some()) { return Step::Bad("dominance:none-key".to_string(), format!("state without key: {:?}", got)); }
                if got.dominated {
                    match got.threshold {
                        None => return Step::Bad("dominance:threshold-missing".to_string(), format!("dominated verdict without a threshold for {:?} value {}", s, value)),
                        Some(t) => {
                            if t < *value as isize { return Step::Bad("dominance:threshold-below-value".to_string(), format!("query {:?} value {} is dominated with threshold {} < value", s, value, t)); }
                            // soundness of the threshold: the same state with any value <= t is dominated too (probe on a replayed copy)
                            let mut ps: Vec<isize> = probes.iter().map(|p| *p as isize).collect();
                            if t != isize::MAX { ps.push(t); }
                            for p in ps {
                                if p <= t {
                                    let (copy, _) = build(hist);
                                    let again = copy.is_dominated_or_insert(Arc::new(*s), *depth as usize, p);
                                    if !again.dominated { return Step::Bad("dominance:threshold-unsound".to_string(), format!("query {:?} value {} is dominated with threshold {}, but the same state with value {} <= threshold is NOT dominated in the same store", s, value, t, p)); }
                                }
                            }
                        }
                    }
                } else if got.threshold.is_some() { return Step::Bad("dominance:threshold-without-dominance".to_string(), format!("not dominated but threshold {:?}", got.threshold)); }
            }
            DOp::ClearLayer(d) => { real.clear_layer(*d as usize); model.fronts.retain(|k, _| k.0 != *d); }
        }
        Step::Next(h128(&(format!("{:?}", real), &model)))
    }));
    match r { Ok(s) => s, Err(_) => Step::Bad("dominance:panic".to_string(), format!("panicked: {}", crate::run::take_panic_msg())) }
}

fn dom_alphabet(keys: &[Option<u8>], depths: &[u8], coords: &[i8], dims: usize, values: &[i8], clear: bool) -> Vec<DOp> {
    let mut v = vec![];
    for k in keys { for d in depths {
        if k.is_none() { v.push(DOp::Query { s: DState { key: None, c: [coords[0], coords[0]] }, depth: *d, value: values[0] }); continue; }
        for c0 in coords { for c1 in (if dims == 2 { coords.to_vec() } else { vec![0] }) { for val in values {
            v.push(DOp::Query { s: DState { key: *k, c: [*c0, c1] }, depth: *d, value: *val });
        } } }
    } }
    if clear { for d in depths { v.push(DOp::ClearLayer(*d)); } }
    v
}

fn c10(rep: &Reporter) -> i32 {
    let th = rep.thorough();
    let deadline = Instant::now() + Duration::from_secs(if th { 1500 } else { 40 });
    let mut runs = vec![];
    let mut tot_states = 0;
    let mut tot_trans = 0;
    let mut fix = true;
    let mut samples = vec![];
    // (name, keys, depths, coords, dims, values, use_value, clear)
    let c3: Vec<i8> = vec![0, 1, 2];
    let c2: Vec<i8> = vec![0, 1];
    let mut specs: Vec<(&str, Vec<Option<u8>>, Vec<u8>, Vec<i8>, usize, Vec<i8>, bool, bool)> = vec![
        ("main-with-value", vec![Some(0), None], vec![0], c3.clone(), 2, c3.clone(), true, false),
        ("main-without-value", vec![Some(0), None], vec![0], c3.clone(), 2, c3.clone(), false, false),
        ("two-keys", vec![Some(0), Some(1)], vec![0], c2.clone(), 1, c2.clone(), true, true),
        ("two-depths", vec![Some(0)], vec![0, 1], c2.clone(), 1, c2.clone(), true, true),
        ("two-depths-2d", vec![Some(0)], vec![0, 1], c2.clone(), 2, vec![0], false, true),
    ];
    if th {
        specs.push(("thorough-4-coords-with-value", vec![Some(0)], vec![0], vec![0, 1, 2, 3], 2, c2.clone(), true, true));
        specs.push(("thorough-two-keys-2d", vec![Some(0), Some(1)], vec![0], c2.clone(), 2, c2.clone(), true, true));
    }
    for (name, keys, depths, coords, dims, values, uv, clear) in specs {
        let alpha = dom_alphabet(&keys, &depths, &coords, dims, &values, clear);
        let describe = |h: &[u16]| json!(h.iter().map(|o| format!("{:?}", alpha[*o as usize])).collect::<Vec<_>>());
        let a = &alpha;
        let nd = depths.len();
        let vals = values.clone();
        let r = bfs(rep, &format!("ops-dominance-{}", name), alpha.len() as u16, if th { 20_000_000 } else { 2_000_000 }, deadline, &describe, |h, op| dom_eval(a, dims, uv, nd, &vals, h, op));
        tot_states += r.states; tot_trans += r.transitions; fix &= r.fixpoint;
        for s in r.sample.iter().take(1) { samples.push(describe(s)); }
        runs.push(json!({"run": name, "alphabet_size": alpha.len(), "use_value": uv, "dims": dims, "states": r.states, "transitions": r.transitions, "bfs_depth": r.depth, "fixpoint_reached": r.fixpoint, "cap": r.capped}));
    }
    // comparator: partial_cmp Greater => cmp Greater, for all pairs of the alphabet
    let mut cmp_pairs = 0u64;
    for uv in [false, true] {
        let d = TestDom { dims: 2, use_value: uv };
        for a0 in 0..3i8 { for a1 in 0..3i8 { for av in 0..3i8 { for b0 in 0..3i8 { for b1 in 0..3i8 { for bv in 0..3i8 {
            let a = DState { key: Some(0), c: [a0, a1] };
            let b = DState { key: Some(0), c: [b0, b1] };
            cmp_pairs += 1;
            let p = d.partial_cmp(&a, av as isize, &b, bv as isize);
            let c = Dominance::cmp(&d, &a, av as isize, &b, bv as isize);
            let chk = SimpleDominanceChecker::new(TestDom { dims: 2, use_value: uv }, 1);
            let c2 = DominanceChecker::cmp(&chk, &a, av as isize, &b, bv as isize);
            if let Some(DominanceCmpResult { ordering: Ordering::Greater, .. }) = p {
                if c != Ordering::Greater || c2 != Ordering::Greater { rep.violation("dominance:comparator".to_string(), format!("{:?}/{} dominates {:?}/{} (use_value={}) but the sorting comparator says {:?}/{:?}", a, av, b, bv, uv, c, c2), json!({"engine": "ops-dominance-cmp", "a": format!("{:?}", a), "va": av, "b": format!("{:?}", b), "vb": bv, "use_value": uv})); }
            }
            if let Some(DominanceCmpResult { ordering: Ordering::Less, .. }) = p {
                if c != Ordering::Less { rep.violation("dominance:comparator".to_string(), format!("{:?}/{} is dominated by {:?}/{} (use_value={}) but the sorting comparator says {:?}", a, av, b, bv, uv, c), json!({"engine": "ops-dominance-cmp"})); }
            }
        } } } } } }
    }
    let (agg, scopes, complete) = solver_level(rep, "C10");
    let cov = json!({
        "states": tot_states, "transitions": tot_trans, "traces_validated_against_impl": tot_trans, "samples": samples,
        "evaluations": tot_trans + cmp_pairs + agg.runs, "distinct_nontrivial": tot_states,
        "rule": "explicit-state BFS over query sequences on the real SimpleDominanceChecker (harness Dominance rule over tiny key/coordinate/value alphabets, with and without value, clear_layer included where listed); every transition is executed on the real object and compared with a reference Pareto front: dominated <=> some recorded entry is >= everywhere and > somewhere; otherwise recorded and every entry it dominates or equals is dropped (checked differentially through all later answers); dominated => threshold >= value and re-querying the same state with any value <= threshold on a replayed copy of the same store is dominated; None key => never dominated nor stored; state key = (Debug print of the checker = its full content, reference fronts); plus the comparator grid and solver-level runs with exact / weakened / capacity dominance rules against the DP oracle",
        "exhaustive": fix && complete, "runs": runs, "comparator_pairs": cmp_pairs,
        "solver_level": {"scopes": scopes, "runs": agg.runs, "runs_with_2+_subproblems": agg.nontrivial, "dominance_prunings": agg.dom_pruned, "monitor_hits_all_properties": agg.monitor_hits},
    });
    rep.finish("model_checking", cov, vec!["every explored transition is an execution of the real checker (replayed from scratch)".to_string(), "the Debug print of SimpleDominanceChecker shows its complete content in internal order".to_string()])
}

// ------------------------------------------------------------------------------------------------
// C18 (sequential part): cache
// ------------------------------------------------------------------------------------------------
#[derive(Clone, Debug)]
enum COp { Update { s: u8, depth: u8, value: i8, explored: bool }, Get { s: u8, depth: u8 }, ClearLayer(u8), Clear }
struct OneVar;
impl Problem for OneVar {
    type State = u8;
    fn nb_variables(&self) -> usize { 1 }
    fn initial_state(&self) -> u8 { 0 }
    fn initial_value(&self) -> isize { 0 }
    fn transition(&self, s: &u8, _: Decision) -> u8 { *s }
    fn transition_cost(&self, _: &u8, _: &u8, _: Decision) -> isize { 0 }
    fn next_variable(&self, _: usize, _: &mut dyn Iterator<Item = &u8>) -> Option<Variable> { None }
    fn for_each_in_domain(&self, _: Variable, _: &u8, _: &mut dyn DecisionCallback) {}
}
fn cache_alphabet(th: bool) -> Vec<COp> {
    let mut v = vec![];
    let states: Vec<u8> = if th { vec![0, 1, 2] } else { vec![0, 1] };
    for s in states.iter() { for depth in [0u8, 1] { for value in [0i8, 1, 2] { for explored in [false, true] { v.push(COp::Update { s: *s, depth, value, explored }); } } } }
    for s in states.iter() { for depth in [0u8, 1] { v.push(COp::Get { s: *s, depth }); } }
    v.push(COp::ClearLayer(0)); v.push(COp::ClearLayer(1)); v.push(COp::Clear);
    v
}
type RefCacheMap = BTreeMap<(u8, u8), (i8, bool)>;
fn cache_apply(model: &mut RefCacheMap, real: &SimpleCache<u8>, op: &COp, check: bool) -> Option<(String, String)> {
    match op {
        COp::Update { s, depth, value, explored } => {
            real.update_threshold(Arc::new(*s), *depth as usize, *value as isize, *explored);
            let e = model.entry((*s, *depth)).or_insert((*value, *explored));
            if (*value, *explored) > *e { *e = (*value, *explored); }
        }
        COp::Get { s, depth } => {
            let got = real.get_threshold(s, *depth as usize);
            let exp = model.get(&(*s, *depth)).map(|(v, e)| Threshold { value: *v as isize, explored: *e });
            if check && got != exp { return Some(("cache:get".to_string(), format!("get_threshold(state {}, depth {}) = {:?} but the maximum recorded since the layer was last cleared is {:?}", s, depth, got, exp))); }
        }
        COp::ClearLayer(d) => { real.clear_layer(*d as usize); model.retain(|k, _| k.1 != *d); }
        COp::Clear => { real.clear(); model.clear(); }
    }
    None
}
fn cache_eval(alpha: &[COp], nstates: u8, hist: &[u16], op: u16) -> Step {
    let r = std::panic::catch_unwind(std::panic::AssertUnwindSafe(|| {
        let mut real = SimpleCache::<u8>::default();
        real.initialize(&OneVar);
        let mut model = RefCacheMap::new();
        for o in hist { cache_apply(&mut model, &real, &alpha[*o as usize], false); }
        if let Some((sig, what)) = cache_apply(&mut model, &real, &alpha[op as usize], true) { return Step::Bad(sig, what); }
        // observation of the complete state after every transition: every key, and must_explore for every value
        for s in 0..nstates { for depth in 0..2u8 {
            let got = real.get_threshold(&s, depth as usize);
            let exp = model.get(&(s, depth)).map(|(v, e)| Threshold { value: *v as isize, explored: *e });
            if got != exp { return Step::Bad("cache:state".to_string(), format!("after {:?}: get_threshold(state {}, depth {}) = {:?}, expected {:?}", alpha[op as usize], s, depth, got, exp)); }
            for value in -1..=3isize {
                let sp = SubProblem { state: Arc::new(s), value, path: vec![], ub: 10, depth: depth as usize };
                let me = real.must_explore(&sp);
                let def = match exp { None => true, Some(t) => value > t.value || (value == t.value && !t.explored) };
                if me != def { return Step::Bad("cache:must_explore".to_string(), format!("must_explore(state {}, depth {}, value {}) = {} with threshold {:?}", s, depth, value, me, exp)); }
            }
        } }
        Step::Next(h128(&(format!("{:?}", real), &model)))
    }));
    match r { Ok(s) => s, Err(_) => Step::Bad("cache:panic".to_string(), format!("panicked: {}", crate::run::take_panic_msg())) }
}

fn c18(rep: &Reporter) -> i32 {
    let th = rep.thorough();
    let deadline = Instant::now() + Duration::from_secs(if th { 900 } else { 25 });
    let alpha = cache_alphabet(th);
    let describe = |h: &[u16]| json!(h.iter().map(|o| format!("{:?}", alpha[*o as usize])).collect::<Vec<_>>());
    let a = &alpha;
    let ns = if th { 3 } else { 2 };
    let r = bfs(rep, "ops-cache", alpha.len() as u16, if th { 30_000_000 } else { 3_000_000 }, deadline, &describe, |h, op| cache_eval(a, ns, h, op));
    let (loom_cov, loom_ok) = crate::loomdrv::run(rep);
    let mut samples: Vec<Value> = r.sample.iter().map(|h| describe(h)).collect();
    if let Some(s) = loom_cov.get("samples").and_then(|s| s.as_array()) { samples.extend(s.iter().cloned()); }
    let loom_execs = loom_cov.get("executions").and_then(|x| x.as_u64()).unwrap_or(0);
    let cov = json!({
        "states": r.states + loom_cov.get("programs").and_then(|x| x.as_u64()).unwrap_or(0), "transitions": r.transitions + loom_execs, "traces_validated_against_impl": r.transitions + loom_execs,
        "samples": samples, "evaluations": r.transitions + loom_execs, "distinct_nontrivial": r.states,
        "rule": "sequential part: explicit-state BFS to fixpoint over update_threshold/get_threshold/clear_layer/clear on the real SimpleCache (2 layers) against a reference map with lexicographic (value, explored) maximum; after every transition every key and must_explore for every value are compared; concurrent part: see concurrent_part (loom: all interleavings of small programs on the real SimpleCache and SimpleDominanceChecker compiled against an instrumented dashmap stand-in, linearizability checked by brute force)",
        "exhaustive": r.fixpoint && loom_ok,
        "sequential_part": {"states": r.states, "transitions": r.transitions, "bfs_depth": r.depth, "fixpoint_reached": r.fixpoint, "cap": r.capped, "alphabet_size": alpha.len()},
        "concurrent_part": loom_cov,
    });
    rep.finish("model_checking", cov, vec![
        "sequential part: every transition is an execution of the real SimpleCache".to_string(),
        "concurrent part: dashmap is replaced by a stand-in with the same API subset and locking discipline (per-shard RwLock held as long as the real guards hold it) over loom primitives; ddo's own code is compiled unmodified against it".to_string(),
    ])
}

pub fn check(prop: &str, tier: &str) -> i32 {
    let rep = Reporter::new(prop, tier);
    match prop { "C10" => c10(&rep), "C11" => c11(&rep), _ => c18(&rep) }
}
