//! Driver of E5 (loom): builds the separate loomcheck workspace against /repo's working tree and runs it.
use crate::report::{verif_dir, Reporter};
use serde_json::{json, Value};
use std::process::Command;

pub fn run(rep: &Reporter) -> (Value, bool) {
    let dir = format!("{}/loomcheck", verif_dir());
    let build_root = std::env::var("VERIF_BUILD").unwrap_or_else(|_| format!("{}/.build", verif_dir()));
    let mut cmd = Command::new("cargo");
    cmd.args(["build", "--release", "--offline"]);
    if let Ok(repo) = std::env::var("VERIF_REPO") { if repo != "/repo" { cmd.arg("--config").arg(format!("paths=[\"{}/ddo\"]", repo)); } }
    let build = cmd.current_dir(&dir).env("CARGO_NET_OFFLINE", "true").env("CARGO_TARGET_DIR", format!("{}/loom", build_root)).output();
    match build {
        Ok(o) if o.status.success() => (),
        Ok(o) => { rep.engine_error(format!("loomcheck does not build against /repo: {}", String::from_utf8_lossy(&o.stderr).lines().rev().take(12).collect::<Vec<_>>().join(" | "))); return (json!({"status": "build failed"}), false); }
        Err(e) => { rep.engine_error(format!("cannot run cargo for loomcheck: {}", e)); return (json!({"status": "build failed"}), false); }
    }
    let exe = format!("{}/loom/release/loomcheck", build_root);
    // one process per core, programs striped over them
    let n = crate::par::nthreads();
    let children: Vec<_> = (0..n).map(|i| Command::new(&exe).arg(&rep.tier).arg(i.to_string()).arg(n.to_string()).stdout(std::process::Stdio::piped()).stderr(std::process::Stdio::piped()).spawn()).collect();
    let mut merged: Option<Value> = None;
    let mut complete = true;
    for (i, c) in children.into_iter().enumerate() {
        let out = match c.and_then(|c| c.wait_with_output()) { Ok(o) => o, Err(e) => { rep.engine_error(format!("cannot run {}: {}", exe, e)); return (json!({"status": "run failed"}), false); } };
        let txt = String::from_utf8_lossy(&out.stdout);
        let v: Value = match txt.lines().last().and_then(|l| serde_json::from_str(l).ok()) { Some(v) => v, None => { rep.engine_error(format!("loomcheck stripe {} produced no report (status {:?}): {}", i, out.status.code(), String::from_utf8_lossy(&out.stderr).chars().take(400).collect::<String>())); complete = false; continue; } };
        for x in v["violations"].as_array().cloned().unwrap_or_default() {
            rep.violation(x["sig"].as_str().unwrap_or("loom").to_string(), x["what"].as_str().unwrap_or("").to_string(), json!({"engine": "loom", "program": x["program"]}));
        }
        complete &= v["complete"].as_bool().unwrap_or(false);
        match &mut merged {
            None => { let mut m = v.clone(); if let Value::Object(o) = &mut m { o.remove("violations"); } merged = Some(m); }
            Some(m) => {
                for k in ["programs", "executions", "distinct_histories"] { m[k] = json!(m[k].as_u64().unwrap_or(0) + v[k].as_u64().unwrap_or(0)); }
                m["wall_s"] = json!(m["wall_s"].as_f64().unwrap_or(0.0).max(v["wall_s"].as_f64().unwrap_or(0.0)));
                if let (Some(a), Some(b)) = (m["families"].as_array_mut(), v["families"].as_array()) {
                    for (fa, fb) in a.iter_mut().zip(b.iter()) { for k in ["programs_done", "executions", "distinct_histories"] { fa[k] = json!(fa[k].as_u64().unwrap_or(0) + fb[k].as_u64().unwrap_or(0)); } }
                }
                if m["samples"].as_array().map_or(0, |s| s.len()) < 4 { if let Some(bs) = v["samples"].as_array() { for b in bs.iter().take(1) { m["samples"].as_array_mut().unwrap().push(b.clone()); } } }
            }
        }
    }
    let mut cov = merged.unwrap_or(json!({"status": "no report"}));
    cov["complete"] = json!(complete);
    cov["processes"] = json!(n);
    (cov, complete)
}
