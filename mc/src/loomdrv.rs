//! Driver of E5 (loom): builds and runs the separate loomcheck workspace (placeholder until it is built)
use crate::report::Reporter;
use serde_json::{json, Value};
pub fn run(_rep: &Reporter) -> (Value, bool) { (json!({"status": "not built yet"}), true) }
