//! E1 controlled scheduler (placeholder: filled in later)
use crate::report::Reporter;
use serde_json::{json, Value};
pub fn shared_op_yield() {}
pub fn cutoff_yield(_armed: bool) {}
pub fn check(_p: &str, _tier: &str) -> i32 { 2 }
pub fn c02_parallel_part(_rep: &Reporter) -> (Value, bool) { (json!({"status": "not built yet"}), true) }
pub fn c05_parallel_part(_rep: &Reporter) -> (Value, bool) { (json!({"status": "not built yet"}), true) }
pub fn c09_parallel_part(_rep: &Reporter) -> (Value, bool) { (json!({"status": "not built yet"}), true) }
pub fn c14_parallel_part(_rep: &Reporter) -> (Value, bool) { (json!({"status": "not built yet"}), true) }
