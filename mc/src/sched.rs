//! E1: controlled scheduler for the REAL ParallelSolver (stateless model checking, iterative context bounding).
//!
//! The hook of feature `xgillard_ddo_verif` serialises the workers: exactly one worker runs between two scheduling
//! points (acquisition of the critical mutex, cache / dominance operation outside a critical section, poll of an
//! armed cut-off, worker start); all others are blocked inside the hook or parked on the solver's condvar.
use crate::bnb::{judge_solution, vshort};
use crate::family::*;
use crate::model::*;
use crate::rec::*;
use crate::report::*;
use crate::run::*;
use ddo::verif::{Event, Site};
use ddo::*;
use serde_json::{json, Value};
use std::cell::Cell;
use std::collections::BTreeMap;
use std::io::{BufRead, BufReader, Write};
use std::sync::atomic::{AtomicU64, AtomicUsize, Ordering::SeqCst};
use std::sync::{Arc, Condvar, Mutex};
use std::time::{Duration, Instant};

#[derive(Clone, Copy, Debug, PartialEq)]
enum Status { NotStarted, AtYield, Running, Parked, Waking, Exited }
#[derive(Clone, Debug)]
pub struct Choice { pub enabled: Vec<usize>, pub idx: usize, pub prev_enabled: bool, pub state: u128 }
/// two choices are the same when the same workers were enabled and the same one was taken (the state fingerprint is derived data)
impl PartialEq for Choice { fn eq(&self, o: &Choice) -> bool { self.enabled == o.enabled && self.idx == o.idx && self.prev_enabled == o.prev_enabled } }
#[derive(Clone, Copy, Debug, PartialEq)]
enum Phase { Idle, AfterGw(usize), Busy }

struct Core {
    n: usize,
    status: Vec<Status>,
    current: Option<usize>,
    prev: Option<usize>,
    prefix: Vec<usize>,
    trace: Vec<Choice>,
    deadlock: bool,
    livelock: bool,
    abandoned: bool,
    done: bool,
    crashed: Vec<usize>,
    steps: usize,
    max_steps: usize,
    last_site: Vec<Option<Site>>,
    starved: Vec<bool>,
    diverged: Option<String>,
    // monitors
    time: usize,
    phase: Vec<Phase>,
    nodes_by_worker: Vec<usize>,
    exits: Vec<(usize, usize)>,
    premature: Option<String>,
    aborting: bool,
    cs_hash: u64,
    /// notify_one calls whose woken thread has not announced itself yet (no decision is taken meanwhile)
    pending_wakeups: usize,
    /// per worker: hash chain of its scheduling points and of everything it has READ from shared state so far
    /// (its local state -- diagram object, position in the code -- is a deterministic function of that history)
    chain: Vec<u64>,
}
pub struct Exec { m: Mutex<Core>, cv: Condvar, fringe_len: AtomicUsize, cut_fired: AtomicUsize,
    /// fingerprints of the shared state (only one worker runs at a time, so plain stores are enough)
    pub crit_fp: AtomicU64, pub fringe_fp: AtomicU64, pub cache_fp: AtomicU64, pub dom_fp: AtomicU64, pub polls_fp: AtomicU64 }

#[inline] pub fn mix(a: u64, b: u64) -> u64 { let mut z = (a ^ b.wrapping_mul(0x9E3779B97F4A7C15)).wrapping_add(0x9E3779B97F4A7C15); z = (z ^ (z >> 30)).wrapping_mul(0xBF58476D1CE4E5B9); z = (z ^ (z >> 27)).wrapping_mul(0x94D049BB133111EB); z ^ (z >> 31) }
pub fn hash_of<T: std::hash::Hash>(t: &T) -> u64 { use std::hash::Hasher; let mut h = std::collections::hash_map::DefaultHasher::new(); t.hash(&mut h); h.finish() }
/// the calling worker has read `x` from shared state (outside of what its position in the code implies)
pub fn note_read(x: u64) { CHAIN.with(|c| c.set(mix(c.get(), x))); }
pub fn in_worker() -> bool { WID.with(|w| w.get()).is_some() }
pub fn in_critical_section() -> bool { INCS.with(|f| f.get()) }

thread_local! {
    static WID: Cell<Option<usize>> = Cell::new(None);
    static INCS: Cell<bool> = Cell::new(false);
    static CHAIN: Cell<u64> = Cell::new(0);
    /// the named portion of code (section hook) the thread is in: names the next lock acquisition
    static CURSITE: Cell<Option<Site>> = Cell::new(None);
    /// the execution this worker thread belongs to (a thread of an abandoned execution must never touch a later one)
    static MYEX: std::cell::RefCell<Option<Arc<Exec>>> = std::cell::RefCell::new(None);
}
pub fn myex() -> Option<Arc<Exec>> { MYEX.with(|m| m.borrow().clone()) }
static CUR: Mutex<Option<Arc<Exec>>> = Mutex::new(None);
fn cur() -> Option<Arc<Exec>> { CUR.lock().unwrap().clone() }

impl Exec {
    fn dispatch(&self, c: &mut Core) {
        if c.current.is_some() || c.abandoned || c.pending_wakeups > 0 { return; }
        if c.status.iter().any(|s| matches!(s, Status::NotStarted | Status::Running | Status::Waking)) { return; }
        let mut enabled: Vec<usize> = (0..c.n).filter(|i| c.status[*i] == Status::AtYield).collect();
        if enabled.is_empty() {
            if c.status.iter().any(|s| *s == Status::Parked) { c.deadlock = true; }
            self.cv.notify_all();
            return;
        }
        if c.steps >= c.max_steps { c.livelock = true; self.cv.notify_all(); return; }
        // canonical order: the previous runner first when still enabled (unless it came back empty handed: fair rotation)
        let mut prev_enabled = false;
        if let Some(p) = c.prev {
            if let Some(pos) = enabled.iter().position(|x| *x == p) {
                if !c.starved[p] { enabled.remove(pos); enabled.insert(0, p); prev_enabled = true; }
                else { let n = c.n; enabled.sort_by_key(|x| (*x + n - p - 1) % n); }
            }
        }
        let k = c.trace.len();
        let idx = if k < c.prefix.len() {
            let i = c.prefix[k];
            if i >= enabled.len() { c.diverged = Some(format!("replay divergence at decision {}: choice {} but only {:?} enabled", k, i, enabled)); c.abandoned = true; self.cv.notify_all(); return; }
            i
        } else { 0 };
        let chosen = enabled[idx];
        // fingerprint of the global state at this decision point: shared data + per worker (status, pending site, history of reads)
        let state = {
            let sh = [self.crit_fp.load(SeqCst), self.fringe_fp.load(SeqCst), self.cache_fp.load(SeqCst), self.dom_fp.load(SeqCst), self.polls_fp.load(SeqCst), self.cut_fired.load(SeqCst) as u64];
            let (mut a, mut b) = (0x243F6A8885A308D3u64, 0x13198A2E03707344u64);
            for x in sh { a = mix(a, x); b = mix(b ^ 0xA4093822299F31D0, x.rotate_left(17)); }
            for i in 0..c.n {
                let w = [c.status[i] as u64, c.last_site[i].map_or(99, |s| s as u64), c.chain[i]];
                for x in w { a = mix(a, x); b = mix(b ^ 0x082EFA98EC4E6C89, x.rotate_left(29)); }
            }
            ((a as u128) << 64) | b as u128
        };
        c.trace.push(Choice { enabled, idx, prev_enabled, state });
        c.steps += 1;
        c.current = Some(chosen);
        c.prev = Some(chosen);
        c.status[chosen] = Status::Running;
        self.cv.notify_all();
    }
    fn yield_here(&self, i: usize, site: Option<Site>) {
        let mut c = self.m.lock().unwrap();
        if c.abandoned { return; }
        if c.status[i] == Status::Parked && c.pending_wakeups > 0 { c.pending_wakeups -= 1; }
        c.starved[i] = site == Some(Site::GetWorkload) && c.last_site[i] == Some(Site::GetWorkload);
        c.last_site[i] = site;
        c.chain[i] = CHAIN.with(|ch| { let v = mix(ch.get(), 1000 + site.map_or(99, |s| s as u64)); ch.set(v); v });
        c.status[i] = Status::AtYield;
        if c.current == Some(i) { c.current = None; }
        self.dispatch(&mut c);
        while c.current != Some(i) && !c.abandoned { c = self.cv.wait(c).unwrap(); }
    }
}

fn hook(e: Event) {
    if let Event::WorkerStart(i) = e {
        let ex = match cur() { Some(x) => x, None => return };
        WID.with(|w| w.set(Some(i)));
        CHAIN.with(|c| c.set(i as u64 + 1));
        MYEX.with(|m| *m.borrow_mut() = Some(ex.clone()));
        ex.yield_here(i, None);
        return;
    }
    let ex = match myex() { Some(x) => x, None => return };
    match e {
        Event::WorkerStart(_) => (),
        Event::WorkerExit { id, panicking } => {
            let mut c = ex.m.lock().unwrap();
            c.status[id] = Status::Exited;
            c.time += 1;
            if panicking { c.crashed.push(id); }
            else if !c.aborting && ex.cut_fired.load(SeqCst) == 0 && c.premature.is_none() {
                // the search is declared complete: nothing may be open or in progress
                let open = ex.fringe_len.load(SeqCst);
                if open > 0 { c.premature = Some(format!("worker {} left with Complete while {} sub-problems are open in the fringe", id, open)); }
                if let Some(b) = (0..c.n).find(|j| *j != id && c.phase[*j] == Phase::Busy) { c.premature = Some(format!("worker {} left with Complete while worker {} is processing a sub-problem", id, b)); }
                let t = c.time;
                c.exits.push((id, t));
            }
            if c.current == Some(id) { c.current = None; }
            ex.dispatch(&mut c);
            WID.with(|w| w.set(None));
            drop(c);
            MYEX.with(|m| *m.borrow_mut() = None);
        }
        Event::Acquire(site) => {
            // annotation only: names the acquisition(s) which follow
            CURSITE.with(|c| c.set(Some(site)));
            if let Some(i) = WID.with(|w| w.get()) {
                let mut c = ex.m.lock().unwrap();
                c.time += 1;
                if site == Site::AbortSearch { c.aborting = true; }
                match (site, c.phase[i]) {
                    (Site::BestLb, Phase::AfterGw(t)) => {
                        c.phase[i] = Phase::Busy;
                        c.nodes_by_worker[i] += 1;
                        if let Some((j, te)) = c.exits.iter().find(|(_, te)| *te > t).copied() { if c.premature.is_none() { c.premature = Some(format!("worker {} left with Complete (t={}) while worker {} already held a sub-problem (since t={})", j, te, i, t)); } }
                    }
                    (Site::GetWorkload, Phase::AfterGw(_)) => c.phase[i] = Phase::Idle,
                    _ => (),
                }
            }
        }
        Event::Lock => {
            // EVERY acquisition of the critical mutex by a worker is a scheduling point, named or not
            if let Some(i) = WID.with(|w| w.get()) {
                let site = CURSITE.with(|c| c.get());
                ex.yield_here(i, site);
                INCS.with(|f| f.set(true));
                let mut c = ex.m.lock().unwrap();
                c.cs_hash = c.cs_hash.wrapping_mul(0x100000001b3).wrapping_add((i as u64) << 8 | site.map_or(15, |s| s as u64));
            }
        }
        Event::Unlock => { INCS.with(|f| f.set(false)); }
        Event::Snapshot { fp, best_lb } => {
            ex.crit_fp.store(fp, SeqCst);
            // the only value of the critical data which flows into the worker's local state (besides the node it pops)
            if CURSITE.with(|c| c.get()) == Some(Site::BestLb) { note_read(best_lb as u64); }
        }
        Event::Released(site) => {
            CURSITE.with(|c| c.set(None));
            if let Some(i) = WID.with(|w| w.get()) {
                let mut c = ex.m.lock().unwrap();
                c.time += 1;
                let t = c.time;
                match site { Site::GetWorkload => c.phase[i] = Phase::AfterGw(t), Site::NotifyNodeFinished => c.phase[i] = Phase::Idle, _ => () }
            }
        }
        Event::BeforeWait => {
            if let Some(i) = WID.with(|w| w.get()) {
                let mut c = ex.m.lock().unwrap();
                c.status[i] = Status::Parked;
                c.last_site[i] = None;
                if c.current == Some(i) { c.current = None; }
                ex.dispatch(&mut c);
            }
        }
        Event::AfterNotifyAll => {
            let mut c = ex.m.lock().unwrap();
            for j in 0..c.n { if c.status[j] == Status::Parked { c.status[j] = Status::Waking; } }
        }
        Event::AfterNotifyOne => {
            // exactly one parked worker has been woken up by the real condvar (which one is its business: FIFO in
            // parking_lot); it announces itself when it reaches its next scheduling point, no decision before that
            let mut c = ex.m.lock().unwrap();
            if c.status.iter().any(|s| *s == Status::Parked) { c.pending_wakeups += 1; }
        }
    }
}

/// called by the cache / dominance wrappers before every operation
pub fn shared_op_yield() {
    if INCS.with(|f| f.get()) { return; }
    if let Some(i) = WID.with(|w| w.get()) { if let Some(ex) = myex() { ex.yield_here(i, None); } }
}
/// called by the cut-off wrapper before every poll
pub fn cutoff_yield(armed: bool) {
    if !armed { return; }
    if let Some(i) = WID.with(|w| w.get()) { if let Some(ex) = myex() { ex.yield_here(i, None); } }
}

/// Fringe wrapper: tells the monitors how many sub-problems are open, publishes the fingerprint of the REAL container
/// (internal layout included: it decides the pop order among ties) and adds what a worker pops to its history
pub trait FpFringe: Fringe<State = St> { fn fp(&self) -> u64; }
impl<O: SubProblemRanking<State = St>> FpFringe for SimpleFringe<O> { fn fp(&self) -> u64 { hash_of(&self.verif_fingerprint()) } }
impl<O: SubProblemRanking<State = St>> FpFringe for NoDupFringe<O> { fn fp(&self) -> u64 { hash_of(&self.verif_fingerprint()) } }
struct WFringe<'a, F: FpFringe> { inner: &'a mut F, ex: Arc<Exec> }
impl<F: FpFringe> WFringe<'_, F> {
    fn publish(&self) { self.ex.fringe_len.store(self.inner.len(), SeqCst); self.ex.fringe_fp.store(self.inner.fp(), SeqCst); }
}
fn node_hash(n: &SubProblem<St>) -> u64 {
    let mut h = mix(hash_of(&*n.state), n.depth as u64);
    h = mix(h, n.value as u64); h = mix(h, n.ub as u64);
    for d in n.path.iter() { h = mix(h, d.variable.0 as u64); h = mix(h, d.value as u64); }
    h
}
impl<F: FpFringe> Fringe for WFringe<'_, F> {
    type State = St;
    fn push(&mut self, node: SubProblem<St>) { self.inner.push(node); self.publish(); }
    fn pop(&mut self) -> Option<SubProblem<St>> { let r = self.inner.pop(); self.publish(); if in_worker() { note_read(r.as_ref().map_or(7, node_hash)); } r }
    fn clear(&mut self) { self.inner.clear(); self.publish(); }
    fn len(&self) -> usize { self.inner.len() }
}

struct CutW { inner: KCut, ex: Arc<Exec> }
impl Cutoff for CutW {
    fn must_stop(&self) -> bool {
        let r = self.inner.must_stop();
        if r { self.ex.cut_fired.store(1, SeqCst); }
        if self.inner.fire_at != usize::MAX { self.ex.polls_fp.store(self.inner.polls.load(SeqCst) as u64, SeqCst); if in_worker() { note_read(r as u64 + 11); } }
        r
    }
}

#[derive(Clone, Debug)]
pub struct Unit {
    pub fam: String,
    pub idx: u64,
    pub var: Variant,
    pub cfg: Cfg,
    pub construct: usize,
    pub run: usize,
    /// usize::MAX = no cut-off; 0 = enumerate every poll index of the default schedule
    pub cut: CutMode,
    pub bound: usize,
    pub primal: bool,
    /// ALL interleavings (no pre-emption bound): explicit-state search with state matching (`bound` is ignored)
    pub all: bool,
}
#[derive(Clone, Copy, Debug, PartialEq)]
pub enum CutMode { None, EveryPoll }
impl Unit {
    fn json(&self) -> Value { let mut v = json!({"family": self.fam, "idx": self.idx, "variant": self.var.json(), "cfg": self.cfg.json(), "construct_threads": self.construct, "run_threads": self.run, "cut": format!("{:?}", self.cut), "bound": self.bound, "primal": self.primal});
        // (only present when set: the JSON of the bounded units is part of the case keys of the known-finding lists)
        if self.all { v["all"] = json!(true); }
        v }
    fn from_json(v: &Value) -> Unit {
        Unit { fam: v["family"].as_str().unwrap().to_string(), idx: v["idx"].as_u64().unwrap(), var: Variant::from_json(&v["variant"]), cfg: Cfg::from_json(&v["cfg"]), construct: v["construct_threads"].as_u64().unwrap() as usize,
               run: v["run_threads"].as_u64().unwrap() as usize, cut: if v["cut"].as_str() == Some("EveryPoll") { CutMode::EveryPoll } else { CutMode::None }, bound: v["bound"].as_u64().unwrap() as usize, primal: v["primal"].as_bool().unwrap_or(false), all: v["all"].as_bool().unwrap_or(false) }
    }
}

#[derive(Clone, Debug, Default)]
pub struct ExecOut {
    pub out: Out,
    pub completed: bool,
    pub deadlock: bool,
    pub livelock: bool,
    pub hang: bool,
    pub diverged: Option<String>,
    pub crashed: Vec<usize>,
    pub premature: Option<String>,
    pub trace: Vec<Choice>,
    pub steps: usize,
    pub workers_with_nodes: usize,
    pub cs_hash: u64,
    pub cut_fired: bool,
    pub statuses: String,
}

macro_rules! par_dispatch {
    ($cfg:expr, $f:ident, $($args:expr),*) => {
        match ($cfg.dd, $cfg.cache) {
            (DdKind::Lel, false) => $f::<DefaultMDDLEL<St>, EmptyCache<St>>($($args),*),
            (DdKind::Lel, true) => $f::<DefaultMDDLEL<St>, RecCache>($($args),*),
            (DdKind::Fc, false) => $f::<DefaultMDDFC<St>, EmptyCache<St>>($($args),*),
            (DdKind::Fc, true) => $f::<DefaultMDDFC<St>, RecCache>($($args),*),
            (DdKind::Pooled, false) => $f::<Pooled<St>, EmptyCache<St>>($($args),*),
            (DdKind::Pooled, true) => $f::<Pooled<St>, RecCache>($($args),*),
        }
    };
}

fn solve_par<D, C>(m: &dyn Model, u: &Unit, fire_at: usize, primal: &Option<(isize, Vec<Decision>)>, ex: Arc<Exec>) -> Out
where D: DecisionDiagram<State = St> + Default, C: Cache<State = St> + Default + Send + Sync {
    let rec = RecModel(m);
    let rank = RankRef(m);
    let width = FixedWidth(u.cfg.width);
    let dom = RecDom::new(m);
    let cut = CutW { inner: KCut::new(fire_at, fuel_for(m)), ex: ex.clone() };
    let mut simple = SimpleFringe::new(MaxUB::new(&rank));
    let mut nodup = NoDupFringe::new(MaxUB::new(&rank));
    let mut wf_s = WFringe { inner: &mut simple, ex: ex.clone() };
    let mut wf_n = WFringe { inner: &mut nodup, ex };
    let wf: &mut (dyn Fringe<State = St> + Send + Sync) = if u.cfg.nodup { &mut wf_n } else { &mut wf_s };
    let mut out = Out::default();
    let mut solver = ParallelSolver::<St, D, C>::custom(&rec, &rec, &rec, &width, &dom, &cut, wf, u.construct);
    if u.construct != u.run { solver = solver.with_nb_threads(u.run); }
    if let Some((v, s)) = primal { solver.set_primal(*v, s.clone()); }
    let r = std::panic::catch_unwind(std::panic::AssertUnwindSafe(|| solver.maximize()));
    match r {
        Err(_) => { out.panicked = Some(take_panic_msg()); }
        Ok(c) => {
            out.is_exact = c.is_exact;
            out.completion_value = c.best_value;
            out.best_value = solver.best_value();
            out.best_solution = solver.best_solution();
            out.lb = solver.best_lower_bound();
            out.ub = solver.best_upper_bound();
            out.explored = solver.explored();
            out.gap = solver.gap();
        }
    }
    out.polls = cut.inner.polls.load(SeqCst);
    out.fuel_out = cut.inner.exhausted.load(SeqCst);
    out
}

/// One execution of the real parallel solver under the schedule `prefix` (then default choices)
pub fn run_once(m: Arc<dyn Model>, u: &Unit, fire_at: usize, primal: &Option<(isize, Vec<Decision>)>, prefix: Vec<usize>, max_steps: usize) -> ExecOut {
    let n = u.run;
    let ex = Arc::new(Exec {
        m: Mutex::new(Core { n, status: vec![Status::NotStarted; n], current: None, prev: None, prefix, trace: vec![], deadlock: false, livelock: false, abandoned: false, done: false, crashed: vec![], steps: 0, max_steps,
                             last_site: vec![None; n], starved: vec![false; n], diverged: None, time: 0, phase: vec![Phase::Idle; n], nodes_by_worker: vec![0; n], exits: vec![], premature: None, aborting: false, cs_hash: 0xcbf29ce484222325, pending_wakeups: 0, chain: vec![0; n] }),
        cv: Condvar::new(), fringe_len: AtomicUsize::new(0), cut_fired: AtomicUsize::new(0),
        crit_fp: AtomicU64::new(0), fringe_fp: AtomicU64::new(0), cache_fp: AtomicU64::new(0), dom_fp: AtomicU64::new(0), polls_fp: AtomicU64::new(0),
    });
    *CUR.lock().unwrap() = Some(ex.clone());
    let result: Arc<Mutex<Option<Out>>> = Arc::new(Mutex::new(None));
    {
        let (m2, u2, primal2, ex2, res2) = (m.clone(), u.clone(), primal.clone(), ex.clone(), result.clone());
        std::thread::spawn(move || {
            let out = par_dispatch!(u2.cfg, solve_par, m2.as_ref(), &u2, fire_at, &primal2, ex2.clone());
            *res2.lock().unwrap() = Some(out);
            let mut c = ex2.m.lock().unwrap();
            c.done = true;
            ex2.cv.notify_all();
        });
    }
    let start = Instant::now();
    let mut c = ex.m.lock().unwrap();
    let mut hang = false;
    loop {
        if c.done || c.deadlock || c.livelock || c.diverged.is_some() { break; }
        let (g, to) = ex.cv.wait_timeout(c, Duration::from_millis(200)).unwrap();
        c = g;
        if to.timed_out() && start.elapsed() > Duration::from_secs(HANG_S.load(SeqCst)) { hang = true; break; }
    }
    let mut eo = ExecOut::default();
    eo.completed = c.done;
    eo.deadlock = c.deadlock && !c.done;
    eo.livelock = c.livelock && !c.done;
    eo.hang = hang;
    eo.diverged = c.diverged.clone();
    eo.crashed = c.crashed.clone();
    eo.premature = c.premature.clone();
    eo.trace = c.trace.clone();
    eo.steps = c.steps;
    eo.workers_with_nodes = c.nodes_by_worker.iter().filter(|x| **x > 0).count();
    eo.cs_hash = c.cs_hash;
    eo.statuses = format!("{:?}", c.status);
    eo.cut_fired = ex.cut_fired.load(SeqCst) != 0;
    if !c.done { c.abandoned = true; ex.cv.notify_all(); }
    drop(c);
    *CUR.lock().unwrap() = None;
    if eo.completed { eo.out = result.lock().unwrap().take().unwrap_or_default(); }
    eo
}

/// seconds after which a worker which has not reached its next scheduling point is reported as hanging; a hang is only believed
/// when the same schedule hangs again under the long limit (a starved machine is not a hang)
static HANG_S: AtomicU64 = AtomicU64::new(20);
const HANG_LONG_S: u64 = 150;
pub struct Finding { pub prop: &'static str, pub sig: String, pub what: String }

fn pclass(m: &dyn Model, u: &Unit) -> String {
    format!("{:?}:{}:{}{}", u.cfg.dd, if u.cfg.cache { "cache" } else { "nocache" }, if m.depth_embedded() { "depth" } else { "flat" }, if m.has_long_arcs() { "+longarcs" } else { "" }).to_lowercase()
}

/// monitors evaluated on every execution
pub fn judge_exec(m: &dyn Model, u: &Unit, fire_at: usize, primal: Option<isize>, e: &ExecOut) -> Vec<Finding> {
    let mut f = vec![];
    let tc = if u.construct == u.run { "same-count" } else if u.run > u.construct { "more-threads-than-constructed" } else { "fewer-threads-than-constructed" };
    if e.deadlock {
        f.push(Finding { prop: "C04", sig: format!("par:deadlock:{}{}", tc, if e.crashed.is_empty() { "" } else { ":after-worker-crash" }), what: format!("no runnable worker while some worker is parked on the condvar (statuses {}; crashed workers {:?})", e.statuses, e.crashed) });
        // an uninterrupted run which never returns does not report the optimum either
        if fire_at == usize::MAX && primal.is_none() && u.construct == u.run { f.push(Finding { prop: "C03", sig: "par:no-result:deadlock".to_string(), what: format!("maximize() never returns under this interleaving: no runnable worker while some worker is parked (statuses {})", e.statuses) }); }
        return f;
    }
    if e.hang { f.push(Finding { prop: "C04", sig: format!("par:hang:{}", tc), what: format!("a worker did not reach its next scheduling point within 20 s (statuses {})", e.statuses) }); return f; }
    if e.livelock {
        f.push(Finding { prop: "C04", sig: format!("par:nonterm:{}", pclass(m, u)), what: format!("no termination within {} scheduling decisions under the fair default continuation", e.steps) });
        if m.has_long_arcs() { f.push(Finding { prop: "C15", sig: format!("par:nonterm:{}", pclass(m, u)), what: format!("no termination within {} scheduling decisions under the fair default continuation", e.steps) }); }
        return f;
    }
    if !e.crashed.is_empty() || e.out.panicked.is_some() {
        f.push(Finding { prop: "C04", sig: format!("par:crash:{}", tc), what: format!("worker(s) {:?} panicked: {}", e.crashed, e.out.panicked.clone().unwrap_or_default()) });
        return f;
    }
    if e.out.fuel_out {
        f.push(Finding { prop: "C04", sig: format!("par:nonterm:{}", pclass(m, u)), what: format!("fuel bound hit after {} polls", e.out.polls) });
        if m.has_long_arcs() { f.push(Finding { prop: "C15", sig: format!("par:nonterm:{}", pclass(m, u)), what: format!("fuel bound hit after {} polls", e.out.polls) }); }
        return f;
    }
    if let Some(p) = &e.premature { f.push(Finding { prop: "C04", sig: "par:premature-complete".to_string(), what: p.clone() }); }
    let opt = m.opt();
    let o = &e.out;
    if fire_at == usize::MAX || !e.cut_fired {
        let target = match (opt, primal) { (Some(a), Some(p)) => Some(a.max(p)), (None, Some(p)) => Some(p), (a, None) => a };
        let p1 = if primal.is_some() { "C14" } else { "C03" };
        if !o.is_exact { f.push(Finding { prop: p1, sig: "par:inexact".to_string(), what: "uninterrupted parallel maximize() reported is_exact = false".to_string() }); }
        if o.best_value != target {
            let sig = format!("par:wrongopt:{}", pclass(m, u));
            let what = format!("best value {:?} but the optimum is {:?} (primal {:?})", o.best_value, opt, primal);
            if u.cfg.cache && primal.is_none() { f.push(Finding { prop: "C09", sig: sig.clone(), what: what.clone() }); }
            if m.has_long_arcs() && primal.is_none() { f.push(Finding { prop: "C15", sig: sig.clone(), what: what.clone() }); }
            f.push(Finding { prop: p1, sig, what });
        }
        for x in judge_solution(m, o, primal, true) { f.push(Finding { prop: "C02", sig: format!("par:{}", x.sig), what: x.what }); }
    } else {
        let ov = opt.unwrap_or(isize::MIN);
        if o.lb > ov { f.push(Finding { prop: "C05", sig: "par:cut:lb-above-opt".to_string(), what: format!("lb {} > optimum {:?}", o.lb, opt) }); }
        if o.ub < ov { f.push(Finding { prop: "C05", sig: format!("par:cut:ub-below-opt{}", if o.ub == o.lb { ":ub=lb" } else { "" }), what: format!("after the cut-off: ub {} < optimum {:?} (lb {}, is_exact {})", o.ub, opt, o.lb, o.is_exact) }); }
        if opt.is_none() && o.best_value.is_some() { f.push(Finding { prop: "C05", sig: "par:cut:value-for-infeasible".to_string(), what: format!("value {:?} for an infeasible problem", o.best_value) }); }
        if o.is_exact && o.best_value != opt { f.push(Finding { prop: "C05", sig: "par:cut:exact-but-wrong".to_string(), what: format!("is_exact but value {:?} != optimum {:?}", o.best_value, opt) }); }
        for x in judge_solution(m, o, None, false) { f.push(Finding { prop: "C05", sig: format!("par:cut:{}", x.sig), what: x.what.clone() }); f.push(Finding { prop: "C02", sig: format!("par:cut:{}", x.sig), what: x.what }); }
    }
    f
}

#[derive(Default, Clone, Debug)]
pub struct UStats {
    pub executions: u64,
    pub decision_nodes: u64,
    pub steps: u64,
    pub distinct_cs_traces: u64,
    pub distinct_outcomes: u64,
    pub concurrent_execs: u64,
    pub blocked: u64,
    pub cut_fired_execs: u64,
    pub cut_indices: u64,
    pub completed_bound: i64,
    pub violations: Vec<(String, String, String, Value)>,
    pub machinery: Vec<String>,
    pub capped: bool,
    pub leaked: u64,
    /// explicit-state mode: distinct global states, transitions executed, executions stopped at an already visited state
    pub states: u64,
    pub transitions: u64,
    pub max_depth: u64,
}

/// Explores all schedules of a unit with at most `bound` pre-emptions (iterative context bounding: 0, 1, .., bound)
pub fn explore_unit(u: &Unit, exec_cap: u64, deadline: Instant) -> UStats {
    let fam = family(&u.fam);
    let m: Arc<dyn Model> = Arc::from(fam.build(u.idx, u.var));
    let primal: Option<(isize, Vec<Decision>)> = if u.primal { let a = m.achievable(); if a.is_empty() { None } else { Some(a[a.len() / 2].clone()) } } else { None };
    let mut st = UStats::default();
    st.completed_bound = -1;
    let mut cs: std::collections::HashSet<u64> = Default::default();
    let mut outcomes: std::collections::HashSet<(Option<isize>, usize, isize, isize, bool)> = Default::default();
    // default schedule first: number of polls K
    let mut base = run_once(m.clone(), u, usize::MAX, &primal, vec![], 20_000);
    if base.hang { HANG_S.store(HANG_LONG_S, SeqCst); base = run_once(m.clone(), u, usize::MAX, &primal, vec![], 20_000); HANG_S.store(20, SeqCst); }
    let max_steps = if base.completed { base.steps * 50 + 2000 } else { 20_000 };
    if !base.completed || base.out.fuel_out {
        // the default schedule itself does not terminate (or dead-locks): report it and do not explore the (equally
        // blocked, and very slow) other schedules of this unit
        if !base.completed { st.leaked += 1; }
        st.executions = 1; st.steps = base.steps as u64; st.blocked = 1; st.decision_nodes = base.trace.len() as u64;
        for x in judge_exec(m.as_ref(), u, usize::MAX, primal.as_ref().map(|p| p.0), &base) {
            st.violations.push((x.prop.to_string(), x.sig, x.what, json!({"engine": "sched", "unit": u.json(), "fire_at": null, "schedule": base.trace.iter().map(|c| c.idx).collect::<Vec<_>>(), "model": m.describe(), "outcome": base.out.json(), "deadlock": base.deadlock, "crashed": base.crashed, "preemptions": 0})));
        }
        st.completed_bound = u.bound as i64;
        st.distinct_cs_traces = 1; st.distinct_outcomes = 1;
        return st;
    }
    let fires: Vec<usize> = match u.cut {
        CutMode::None => vec![usize::MAX],
        CutMode::EveryPoll => if base.completed { (1..=base.out.polls + 1).collect() } else { vec![1] },
    };
    st.cut_indices = if u.cut == CutMode::EveryPoll { fires.len() as u64 } else { 0 };
    let mut sigs_seen: std::collections::HashSet<String> = Default::default();
    'bounds: for bound in 0..=u.bound {
        for fire_at in fires.iter().copied() {
            // DFS over prefixes; at bound b only executions with exactly b pre-emptions are new
            let mut stack: Vec<(Vec<usize>, usize)> = vec![(vec![], 0)];
            while let Some((prefix, pre_used)) = stack.pop() {
                if Instant::now() > deadline || st.executions >= exec_cap || st.leaked >= 50 { st.capped = true; break 'bounds; }
                let plen = prefix.len();
                HANG_S.store(20, SeqCst);
                let mut e = run_once(m.clone(), u, fire_at, &primal, prefix.clone(), max_steps);
                if e.hang {
                    // not believed before the same schedule hangs again under a much longer limit
                    st.leaked += 1;
                    HANG_S.store(HANG_LONG_S, SeqCst);
                    let sched: Vec<usize> = e.trace.iter().map(|c| c.idx).collect();
                    e = run_once(m.clone(), u, fire_at, &primal, sched, max_steps);
                    if !e.hang { HANG_S.store(20, SeqCst); }
                }
                if let Some(d) = &e.diverged { st.machinery.push(format!("{} in unit {}", d, u.json())); st.capped = true; HANG_S.store(20, SeqCst); break 'bounds; }
                if !e.completed { st.leaked += 1; }
                // count (and judge) only the executions whose number of pre-emptions is exactly `bound`
                let mut pre = 0usize;
                for ch in e.trace.iter() { if ch.prev_enabled && ch.idx != 0 { pre += 1; } }
                let _ = pre_used;
                if pre == bound {
                    st.executions += 1;
                    st.decision_nodes += e.trace.iter().skip(plen).count() as u64 + if plen == 0 { 0 } else { 0 };
                    st.steps += e.steps as u64;
                    cs.insert(e.cs_hash);
                    outcomes.insert((e.out.best_value, e.out.explored, e.out.lb, e.out.ub, e.out.is_exact));
                    if e.workers_with_nodes >= 2 { st.concurrent_execs += 1; }
                    if e.cut_fired { st.cut_fired_execs += 1; }
                    let fs = judge_exec(m.as_ref(), u, fire_at, primal.as_ref().map(|p| p.0), &e);
                    if !e.completed { st.blocked += 1; }
                    for x in fs {
                        let key = format!("{}:{}", x.prop, x.sig);
                        if sigs_seen.insert(key) {
                            // replay twice: the traces must be identical before anything is reported
                            let sched: Vec<usize> = e.trace.iter().map(|c| c.idx).collect();
                            let r1 = run_once(m.clone(), u, fire_at, &primal, sched.clone(), max_steps);
                            let r2 = run_once(m.clone(), u, fire_at, &primal, sched.clone(), max_steps);
                            if !r1.completed { st.leaked += 1; }
                            if !r2.completed { st.leaked += 1; }
                            if r1.trace != e.trace || r2.trace != e.trace || r1.diverged.is_some() || r2.diverged.is_some() || r1.cs_hash != e.cs_hash || r2.cs_hash != e.cs_hash {
                                st.machinery.push(format!("replay of a violating schedule is not deterministic ({}:{}) unit {} schedule {:?}", x.prop, x.sig, u.json(), sched));
                            } else {
                                st.violations.push((x.prop.to_string(), x.sig, x.what, json!({"engine": "sched", "unit": u.json(), "fire_at": if fire_at == usize::MAX { json!(null) } else { json!(fire_at) }, "schedule": sched,
                                    "model": m.describe(), "outcome": e.out.json(), "deadlock": e.deadlock, "crashed": e.crashed, "preemptions": pre})));
                            }
                        }
                    }
                }
                // children: deviate at a later decision, within the budget
                let mut used = 0usize;
                let choices: Vec<usize> = e.trace.iter().map(|c| c.idx).collect();
                for (i, ch) in e.trace.iter().enumerate() {
                    if i >= plen {
                        for alt in 1..ch.enabled.len() {
                            let cost = used + if ch.prev_enabled { 1 } else { 0 };
                            if cost <= bound {
                                // to avoid re-exploring at bound b the executions of bounds < b, a deviation which is free
                                // (forced switch) is always taken, a paying one only if the total can still reach `bound`
                                let mut p = choices[..i].to_vec();
                                p.push(alt);
                                stack.push((p, cost));
                            }
                        }
                    }
                    if ch.prev_enabled && ch.idx != 0 { used += 1; }
                }
            }
        }
        st.completed_bound = bound as i64;
    }
    st.distinct_cs_traces = cs.len() as u64;
    st.distinct_outcomes = outcomes.len() as u64;
    st
}

/// Explores ALL interleavings of a unit (no pre-emption bound) by explicit-state search: a state is the fingerprint taken
/// at a decision point (shared data of the solver, fringe, cache and dominance stores, cut-off polls; per worker its
/// status, pending acquisition and the history of everything it has read from shared state).  A state reached a second
/// time is not expanded again: every successor of it is (or will be) reached from its first visit.  States are still
/// reached by re-executing the real solver from its initial state (it cannot be snapshotted).
/// `reverse`: push the alternatives in the opposite order (used to cross-check the state matching: the number of
/// distinct states and the set of outcomes must not depend on the order of the search).
pub fn explore_unit_all(u: &Unit, exec_cap: u64, deadline: Instant, reverse: bool) -> UStats {
    let fam = family(&u.fam);
    let m: Arc<dyn Model> = Arc::from(fam.build(u.idx, u.var));
    let primal: Option<(isize, Vec<Decision>)> = if u.primal { let a = m.achievable(); if a.is_empty() { None } else { Some(a[a.len() / 2].clone()) } } else { None };
    let mut st = UStats::default();
    st.completed_bound = -1;
    let mut outcomes: std::collections::HashSet<(Option<isize>, usize, isize, isize, bool)> = Default::default();
    let mut cs: std::collections::HashSet<u64> = Default::default();
    let mut base = run_once(m.clone(), u, usize::MAX, &primal, vec![], 20_000);
    if base.hang { HANG_S.store(HANG_LONG_S, SeqCst); base = run_once(m.clone(), u, usize::MAX, &primal, vec![], 20_000); HANG_S.store(20, SeqCst); }
    let max_steps = if base.completed { base.steps * 50 + 2000 } else { 20_000 };
    if !base.completed || base.out.fuel_out {
        if !base.completed { st.leaked += 1; }
        st.executions = 1; st.steps = base.steps as u64; st.blocked = 1; st.decision_nodes = base.trace.len() as u64;
        for x in judge_exec(m.as_ref(), u, usize::MAX, primal.as_ref().map(|p| p.0), &base) {
            st.violations.push((x.prop.to_string(), x.sig, x.what, json!({"engine": "sched", "unit": u.json(), "fire_at": null, "schedule": base.trace.iter().map(|c| c.idx).collect::<Vec<_>>(), "model": m.describe(), "outcome": base.out.json(), "deadlock": base.deadlock, "crashed": base.crashed, "preemptions": 0})));
        }
        st.completed_bound = u.bound as i64; st.distinct_cs_traces = 1; st.distinct_outcomes = 1;
        return st;
    }
    let fires: Vec<usize> = match u.cut { CutMode::None => vec![usize::MAX], CutMode::EveryPoll => (1..=base.out.polls + 1).collect() };
    st.cut_indices = if u.cut == CutMode::EveryPoll { fires.len() as u64 } else { 0 };
    let mut sigs_seen: std::collections::HashSet<String> = Default::default();
    'fires: for fire_at in fires.iter().copied() {
        let mut visited: std::collections::HashSet<u128> = Default::default();
        let mut stack: Vec<Vec<u8>> = vec![vec![]];
        while let Some(prefix) = stack.pop() {
            if Instant::now() > deadline || st.executions >= exec_cap || st.leaked >= 50 { st.capped = true; break 'fires; }
            let plen = prefix.len();
            HANG_S.store(20, SeqCst);
            let mut e = run_once(m.clone(), u, fire_at, &primal, prefix.iter().map(|x| *x as usize).collect(), max_steps);
            if e.hang {
                st.leaked += 1;
                HANG_S.store(HANG_LONG_S, SeqCst);
                let sched: Vec<usize> = e.trace.iter().map(|c| c.idx).collect();
                e = run_once(m.clone(), u, fire_at, &primal, sched, max_steps);
                if !e.hang { HANG_S.store(20, SeqCst); }
            }
            if let Some(d) = &e.diverged { st.machinery.push(format!("{} in unit {}", d, u.json())); st.capped = true; HANG_S.store(20, SeqCst); break 'fires; }
            if !e.completed { st.leaked += 1; }
            st.executions += 1;
            st.steps += e.steps as u64;
            st.max_depth = st.max_depth.max(e.trace.len() as u64);
            cs.insert(e.cs_hash);
            outcomes.insert((e.out.best_value, e.out.explored, e.out.lb, e.out.ub, e.out.is_exact));
            if e.workers_with_nodes >= 2 { st.concurrent_execs += 1; }
            if e.cut_fired { st.cut_fired_execs += 1; }
            if !e.completed { st.blocked += 1; }
            let mut pre = 0usize;
            for ch in e.trace.iter() { if ch.prev_enabled && ch.idx != 0 { pre += 1; } }
            for x in judge_exec(m.as_ref(), u, fire_at, primal.as_ref().map(|p| p.0), &e) {
                let key = format!("{}:{}", x.prop, x.sig);
                if sigs_seen.insert(key) {
                    let sched: Vec<usize> = e.trace.iter().map(|c| c.idx).collect();
                    let r1 = run_once(m.clone(), u, fire_at, &primal, sched.clone(), max_steps);
                    let r2 = run_once(m.clone(), u, fire_at, &primal, sched.clone(), max_steps);
                    if !r1.completed { st.leaked += 1; }
                    if !r2.completed { st.leaked += 1; }
                    if r1.trace != e.trace || r2.trace != e.trace || r1.diverged.is_some() || r2.diverged.is_some() || r1.cs_hash != e.cs_hash || r2.cs_hash != e.cs_hash {
                        st.machinery.push(format!("replay of a violating schedule is not deterministic ({}:{}) unit {} schedule {:?}", x.prop, x.sig, u.json(), sched));
                    } else {
                        st.violations.push((x.prop.to_string(), x.sig, x.what, json!({"engine": "sched", "unit": u.json(), "fire_at": if fire_at == usize::MAX { json!(null) } else { json!(fire_at) }, "schedule": sched,
                            "model": m.describe(), "outcome": e.out.json(), "deadlock": e.deadlock, "crashed": e.crashed, "preemptions": pre})));
                    }
                }
            }
            // the decisions of the prefix were taken in states visited by the parent execution; the first fresh one is
            // the decision number plen
            for i in plen..e.trace.len() {
                let ch = &e.trace[i];
                st.transitions += 1;
                if !visited.insert(ch.state) { break; }
                st.states += 1;
                let alts: Vec<usize> = if reverse { (1..ch.enabled.len()).rev().collect() } else { (1..ch.enabled.len()).collect() };
                for alt in alts {
                    let mut p: Vec<u8> = e.trace[..i].iter().map(|c| c.idx as u8).collect();
                    p.push(alt as u8);
                    stack.push(p);
                }
            }
        }
    }
    if !st.capped { st.completed_bound = u.bound as i64; }
    st.decision_nodes = st.states;
    st.distinct_cs_traces = cs.len() as u64;
    st.distinct_outcomes = outcomes.len() as u64;
    st
}

// ------------------------------------------------------------------------------------------------------------
// worker processes
// ------------------------------------------------------------------------------------------------------------
extern "C" { fn sched_setaffinity(pid: i32, cpusetsize: usize, mask: *const u64) -> i32; }
fn pin_to_core(core: usize) {
    let mut mask = [0u64; 16];
    mask[core / 64] |= 1 << (core % 64);
    unsafe { sched_setaffinity(0, std::mem::size_of_val(&mask), mask.as_ptr()); }
}

/// `mc sched-worker <units.json> <stripe> <nstripes> <deadline_s> <exec_cap>`: explores the units of its stripe, one JSON line per unit
pub fn worker_main(args: &[String]) -> i32 {
    let units: Vec<Value> = serde_json::from_str(&std::fs::read_to_string(&args[0]).unwrap()).unwrap();
    let stripe: usize = args[1].parse().unwrap();
    let n: usize = args[2].parse().unwrap();
    let deadline = Instant::now() + Duration::from_secs_f64(args[3].parse().unwrap());
    let exec_cap: u64 = args[4].parse().unwrap();
    let start_from: usize = args.get(5).and_then(|s| s.parse().ok()).unwrap_or(0);
    pin_to_core(stripe % std::thread::available_parallelism().map(|n| n.get()).unwrap_or(1));
    ddo::verif::set_hook(Some(Arc::new(hook)));
    let stdout = std::io::stdout();
    let mut leaked = 0;
    for (pos, uv) in units.iter().enumerate() {
        if pos % n != stripe || pos < start_from { continue; }
        let u = Unit::from_json(uv);
        let t0 = Instant::now();
        let (pops0, repops0) = (crate::rec::POPS.load(SeqCst), crate::rec::REPOPS_BETTER.load(SeqCst));
        let run_unit = |u: &Unit| if Instant::now() > deadline { let mut s = UStats::default(); s.capped = true; s.completed_bound = -1; s } else if u.all { explore_unit_all(u, exec_cap, deadline, false) } else { explore_unit(u, exec_cap, deadline) };
        let mut st = run_unit(&u);
        // a replay divergence is a race inside the harness (rare: 1 in 10^6 executions with three workers and a cache): the unit is
        // explored again from scratch, at most twice; only a third failure in a row is reported (as a machinery error, never as a verdict)
        let mut earlier: Vec<String> = vec![];
        for _attempt in 0..2 { if st.machinery.is_empty() { break; } earlier.extend(st.machinery.clone()); st = run_unit(&u); }
        if !st.machinery.is_empty() { st.machinery.extend(earlier); }
        leaked += st.leaked;
        let line = json!({"pos": pos, "executions": st.executions, "decision_nodes": st.decision_nodes, "steps": st.steps, "distinct_cs_traces": st.distinct_cs_traces, "distinct_outcomes": st.distinct_outcomes,
            "concurrent_execs": st.concurrent_execs, "blocked": st.blocked, "cut_fired_execs": st.cut_fired_execs, "cut_indices": st.cut_indices, "completed_bound": st.completed_bound, "capped": st.capped, "leaked": st.leaked, "states": st.states, "transitions": st.transitions, "max_depth": st.max_depth,
            "pops": crate::rec::POPS.load(SeqCst) - pops0, "repops_better": crate::rec::REPOPS_BETTER.load(SeqCst) - repops0,
            "violations": st.violations.iter().map(|(p, s, w, r)| json!({"prop": p, "sig": s, "what": w, "replay": r})).collect::<Vec<_>>(), "machinery": st.machinery, "wall_s": t0.elapsed().as_secs_f64()});
        let mut lock = stdout.lock();
        let _ = writeln!(lock, "{}", line);
        let _ = lock.flush();
        // too many abandoned executions (threads parked for ever): continue in a fresh process
        if leaked >= 40 { return 3; }
    }
    0
}

pub struct Campaign { pub cov: Value, pub complete: bool, pub states: u64, pub transitions: u64, pub executions: u64, pub concurrent: u64 }

/// Farms the units out to one pinned process per core and aggregates
pub fn explore_units(rep: &Reporter, focus: &[&str], units: &[Unit], budget_s: f64, exec_cap: u64) -> Campaign {
    let budget_s = cap_secs(budget_s as u64) as f64;
    // list generation: every unit must be visited (no wall cap); the known signatures of this engine come from the
    // default schedule of a unit, so a small execution cap per unit is enough there
    let exec_cap = if std::env::var("VERIF_KNOWN_GEN").is_ok() { exec_cap.min(2000) } else if cap_secs(1) > 1 { u64::MAX / 4 } else { exec_cap };
    // cheap units first (the stripes visit their units in list order), so that a wall clock cap hits the deepest bounds only
    let mut sorted: Vec<Unit> = units.to_vec();
    sorted.sort_by_key(|u| (u.all, u.bound + if u.cut == CutMode::EveryPoll { 1 } else { 0 }, u.run));
    let units: &[Unit] = &sorted;
    let dir = format!("{}/sched", std::env::var("VERIF_BUILD").unwrap_or_else(|_| format!("{}/.build", verif_dir())));
    let _ = std::fs::create_dir_all(&dir);
    let file = format!("{}/units-{}-{}.json", dir, rep.property, std::process::id());
    std::fs::write(&file, serde_json::to_string(&units.iter().map(|u| u.json()).collect::<Vec<_>>()).unwrap()).unwrap();
    let n = crate::par::nthreads().min(units.len().max(1));
    let exe = std::env::current_exe().unwrap();
    let t0 = Instant::now();
    let mut results: Vec<Option<Value>> = vec![None; units.len()];
    let results_m = Mutex::new(&mut results);
    let machinery = Mutex::new(vec![]);
    let restarts: Mutex<Vec<String>> = Mutex::new(vec![]);
    std::thread::scope(|s| {
        for stripe in 0..n {
            let (file, exe, results_m, machinery, restarts) = (&file, &exe, &results_m, &machinery, &restarts);
            s.spawn(move || {
                let mut start_from = 0usize;
                let mut respawns = 0;
                // position at which the previous worker process of this stripe died (not by its own decision)
                let mut died_at: Option<usize> = None;
                loop {
                    let remaining = (budget_s - t0.elapsed().as_secs_f64()).max(0.0);
                    let errfile = format!("{}.stderr-{}", file, stripe);
                    let stderr = std::fs::File::create(&errfile).map(std::process::Stdio::from).unwrap_or_else(|_| std::process::Stdio::null());
                    let mut child = std::process::Command::new(exe).arg("sched-worker").arg(file).arg(stripe.to_string()).arg(n.to_string()).arg(format!("{}", remaining)).arg(exec_cap.to_string()).arg(start_from.to_string())
                        .stdout(std::process::Stdio::piped()).stderr(stderr).spawn().expect("cannot spawn worker process");
                    let out = child.stdout.take().unwrap();
                    let mut last_pos = None;
                    for line in BufReader::new(out).lines() {
                        if let Ok(l) = line { if let Ok(v) = serde_json::from_str::<Value>(&l) { let pos = v["pos"].as_u64().unwrap() as usize; last_pos = Some(pos); results_m.lock().unwrap()[pos] = Some(v); } }
                    }
                    let status = child.wait();
                    let code = status.as_ref().map(|s| s.code().unwrap_or(-1)).unwrap_or(-1);
                    let tail: String = std::fs::read_to_string(&errfile).unwrap_or_default().lines().rev().take(4).collect::<Vec<_>>().into_iter().rev().collect::<Vec<_>>().join(" | ");
                    let _ = std::fs::remove_file(&errfile);
                    if code == 0 { break; }
                    respawns += 1;
                    // the unit during which the process ended: the first one of this stripe at or after the restart position
                    let resume = last_pos.map_or(start_from, |p| p + 1);
                    let fatal_pos = (resume..units.len()).find(|p| p % n == stripe);
                    start_from = resume;
                    if code != 3 {
                        // a worker process which dies (signal, abort) is replaced and its unit explored again from scratch; only a
                        // second death during the SAME unit is an error of the machinery (the unit is then given up)
                        if died_at.is_some() && died_at == fatal_pos {
                            machinery.lock().unwrap().push(format!("worker process of stripe {} ended twice with status {} ({:?}) while exploring unit {:?}: unit given up; last lines of its stderr: {}", stripe, code, status, fatal_pos, tail));
                            start_from = fatal_pos.map_or(units.len(), |p| p + 1);
                        } else {
                            restarts.lock().unwrap().push(format!("stripe {} unit {:?}: worker process ended with status {} ({:?}), replaced, unit explored again; stderr: {}", stripe, fatal_pos, code, status, tail));
                        }
                        died_at = fatal_pos;
                    }
                    if respawns > 200 || start_from >= units.len() { break; }
                }
            });
        }
    });
    let _ = std::fs::remove_file(&file);
    let mut agg: BTreeMap<&str, u64> = BTreeMap::new();
    let mut complete = true;
    let mut done_units = 0u64;
    let mut by_class: BTreeMap<String, (u64, u64, i64, u64, u64)> = BTreeMap::new();
    let mut samples = vec![];
    for (pos, r) in results.iter().enumerate() {
        let u = &units[pos];
        match r {
            None => { complete = false; }
            Some(v) => {
                done_units += 1;
                for k in ["executions", "decision_nodes", "steps", "distinct_cs_traces", "distinct_outcomes", "concurrent_execs", "blocked", "cut_fired_execs", "cut_indices", "leaked", "states", "transitions", "pops", "repops_better"] { *agg.entry(k).or_insert(0) += v[k].as_u64().unwrap_or(0); }
                if v["capped"].as_bool().unwrap_or(false) || v["completed_bound"].as_i64().unwrap_or(-1) < u.bound as i64 { complete = false; }
                let cls = if u.all { format!("{} workers (constructed for {}), cut={:?}, ALL interleavings (explicit-state search with state matching, no pre-emption bound)", u.run, u.construct, u.cut) }
                          else { format!("{} workers (constructed for {}), cut={:?}, bound {}", u.run, u.construct, u.cut, u.bound) };
                let e = by_class.entry(cls).or_insert((0, 0, i64::MAX, 0, 0));
                e.0 += 1; e.1 += v["executions"].as_u64().unwrap_or(0); e.2 = e.2.min(v["completed_bound"].as_i64().unwrap_or(-1));
                if !v["capped"].as_bool().unwrap_or(false) && v["completed_bound"].as_i64().unwrap_or(-1) >= 0 { e.3 += 1; if u.all { e.4 += v["states"].as_u64().unwrap_or(0); } }
                for x in v["violations"].as_array().unwrap() {
                    let prop = x["prop"].as_str().unwrap();
                    if focus.contains(&prop) { rep.violation(x["sig"].as_str().unwrap().to_string(), x["what"].as_str().unwrap().to_string(), x["replay"].clone()); }
                }
                for mm in v["machinery"].as_array().unwrap() { rep.engine_error(mm.as_str().unwrap().to_string()); }
                if samples.len() < 3 && v["concurrent_execs"].as_u64().unwrap_or(0) > 0 { samples.push(json!({"unit": u.json(), "executions": v["executions"], "distinct_critical_section_traces": v["distinct_cs_traces"], "completed_bound": v["completed_bound"]})); }
            }
        }
    }
    for mm in machinery.lock().unwrap().iter() { rep.engine_error(mm.clone()); }
    let g = |k: &str| agg.get(k).copied().unwrap_or(0);
    let cov = json!({
        "units": units.len(), "units_done": done_units, "executions": g("executions"), "states": g("decision_nodes"), "transitions": g("steps"), "traces_validated_against_impl": g("executions"),
        "distinct_critical_section_traces": g("distinct_cs_traces"), "distinct_outcomes_summed_over_units": g("distinct_outcomes"), "executions_with_2+_workers_processing_nodes": g("concurrent_execs"),
        "executions_blocked_by_another_monitor": g("blocked"), "executions_in_which_the_cutoff_fired": g("cut_fired_execs"), "cutoff_indices_enumerated": g("cut_indices"), "abandoned_executions": g("leaked"),
        "by_class": by_class.iter().map(|(k, v)| json!({"class": k, "units": v.0, "executions": v.1, "min_completed_preemption_bound": v.2, "units_explored_completely": v.3, "distinct_states_of_the_completely_explored_units": v.4})).collect::<Vec<_>>(),
        "explicit_state_units": units.iter().filter(|u| u.all).count(), "explicit_state_distinct_states": g("states"), "explicit_state_transitions": g("transitions"),
        "sub_problems_popped_with_a_cache (summed over executions)": g("pops"), "of_which_popped_again_with_a_better_value": g("repops_better"),
        "exhaustive_within_bounds": complete, "samples": samples, "wall_s": t0.elapsed().as_secs_f64(),
        "worker_processes_replaced_after_an_abnormal_end (their unit was explored again from scratch)": restarts.lock().unwrap().clone(),
        "explanation": "stateless exploration (iterative context bounding) of the real ParallelSolver under a controlled scheduler: states = decision nodes of the schedule tree, transitions = scheduling steps, every execution is a run of the implementation",
    });
    Campaign { cov, complete, states: g("decision_nodes"), transitions: g("steps"), executions: g("executions"), concurrent: g("concurrent_execs") }
}

// ------------------------------------------------------------------------------------------------------------
// unit lists
// ------------------------------------------------------------------------------------------------------------
/// deterministic instance list: the first `m` instances (enumeration order) of a family/variant whose sequential
/// search (LEL, no cache, simple fringe, width 1) processes >= 3 sub-problems
pub fn interesting(fam_name: &str, var: Variant, m: usize, stride: u64) -> Vec<(String, u64, Variant)> {
    // deterministic: among the first 60 instances visited at the given stride, those whose sequential search (LEL, no
    // cache, simple fringe, width 1) processes >= 3 sub-problems, the ones with the MOST sub-problems first (ties: index)
    let fam = family(fam_name);
    let mut cands: Vec<(usize, u64)> = vec![];
    let mut idx = 0u64;
    let mut seen = 0;
    while seen < 60 && idx < fam.count() {
        let md = fam.build(idx, var);
        let o = run_seq(md.as_ref(), &RunSpec::plain(Cfg { dd: DdKind::Lel, cache: false, nodup: false, width: 1 }));
        if o.explored >= 3 && o.panicked.is_none() && !o.fuel_out { cands.push((o.explored, idx)); }
        idx += stride;
        seen += 1;
    }
    cands.sort_by(|a, b| b.0.cmp(&a.0).then(a.1.cmp(&b.1)));
    cands.into_iter().take(m).map(|(_, i)| (fam_name.to_string(), i, var)).collect()
}

fn instance_list(th: bool) -> Vec<(String, u64, Variant)> {
    let base = Variant::BASE;
    let flat = Variant { flat: true, ..base };
    let rub = Variant { rub: Rub::Exact, ..base };
    let dom = Variant { dom: Dom::Exact, ..base };
    let sp = Variant { flat: true, la: false, ..base };
    let k = if th { 6 } else { 2 };
    let mut v = vec![];
    v.extend(interesting("TM-B4", base, k, 97));
    v.extend(interesting("TM-B4", flat, k, 193));
    v.extend(interesting("TM-N0.1", base, k, 7));
    v.extend(interesting("TM-N1.1", rub, k, 11));
    v.extend(interesting("TM-N2.1", dom, k.min(3), 13));
    v.extend(interesting("SP-4", sp, k, 211));
    v.extend(interesting("KP-3", Variant { rub: Rub::Exact, ..base }, k, 173));
    v.extend(interesting("KP-3", base, k.min(3), 389));
    v
}

fn cfgs12(width: usize) -> Vec<Cfg> { Cfg::full(&[width]) }

/// instances for the explicit-state search (ALL interleavings): the interesting instances with the FEWEST sub-problems
/// (>= 3, so that two workers really process nodes concurrently), `m` per family
pub fn interesting_small(fam_name: &str, var: Variant, m: usize, stride: u64, min_nodes: usize) -> Vec<(String, u64, Variant)> {
    let fam = family(fam_name);
    let mut cands: Vec<(usize, u64)> = vec![];
    let mut idx = 0u64;
    let mut seen = 0;
    while seen < 60 && idx < fam.count() {
        let md = fam.build(idx, var);
        let o = run_seq(md.as_ref(), &RunSpec::plain(Cfg { dd: DdKind::Lel, cache: false, nodup: false, width: 1 }));
        if o.explored >= min_nodes && o.panicked.is_none() && !o.fuel_out { cands.push((o.explored, idx)); }
        idx += stride;
        seen += 1;
    }
    cands.sort();
    cands.into_iter().take(m).map(|(_, i)| (fam_name.to_string(), i, var)).collect()
}
fn instance_list_small(th: bool) -> Vec<(String, u64, Variant)> {
    let base = Variant::BASE;
    let k = if th { 3 } else { 1 };
    let mn = if th { 4 } else { 3 };
    let mut v = vec![];
    v.extend(interesting_small("TM-B4", base, k, 97, mn));
    v.extend(interesting_small("TM-B4", Variant { flat: true, ..base }, k, 193, mn));
    v.extend(interesting_small("TM-N0.1", base, k, 7, mn));
    v.extend(interesting_small("TM-N1.1", Variant { rub: Rub::Exact, ..base }, k, 11, mn));
    v.extend(interesting_small("TM-N2.1", Variant { dom: Dom::Exact, ..base }, k, 13, mn));
    v.extend(interesting_small("SP-4", Variant { flat: true, la: false, ..base }, k, 211, mn));
    v.extend(interesting_small("KP-3", Variant { rub: Rub::Exact, ..base }, k, 173, mn));
    v.extend(interesting_small("KP-3", Variant { dom: Dom::Coord, ..base }, k, 389, mn));
    v
}
/// units of the explicit-state search: 2 workers (thorough: also 3 workers and a wider diagram), every diagram x cache x fringe
fn units_all(th: bool, cut: CutMode, primal: bool) -> Vec<Unit> {
    let mut v = vec![];
    for (fam, idx, var) in instance_list_small(th) {
        for cfg in cfgs12(1) {
            v.push(Unit { fam: fam.clone(), idx, var, cfg, construct: 2, run: 2, cut, bound: 99, primal, all: true });
        }
    }
    if th {
        for (fam, idx, var) in instance_list_small(false) {
            for cfg in [Cfg { dd: DdKind::Lel, cache: false, nodup: false, width: 1 }, Cfg { dd: DdKind::Fc, cache: true, nodup: true, width: 1 }, Cfg { dd: DdKind::Pooled, cache: true, nodup: false, width: 1 }] {
                v.push(Unit { fam: fam.clone(), idx, var, cfg, construct: 3, run: 3, cut, bound: 99, primal, all: true });
                if cut == CutMode::None { v.push(Unit { fam: fam.clone(), idx, var, cfg, construct: 1, run: 2, cut, bound: 99, primal, all: true }); v.push(Unit { fam: fam.clone(), idx, var, cfg, construct: 3, run: 2, cut, bound: 99, primal, all: true }); }
            }
        }
    }
    v
}
/// the explicit-state part of a check: ALL interleavings of the listed units
pub fn all_part(rep: &Reporter, focus: &str, cut: CutMode, primal: bool, cache_only: bool, quick_s: f64, thorough_s: f64) -> (Value, bool, u64, u64) {
    let th = rep.thorough();
    let mut units = units_all(th, cut, primal);
    if cache_only { units.retain(|u| u.cfg.cache); }
    let c = explore_units(rep, &[focus], &units, if th { thorough_s } else { quick_s }, u64::MAX / 4);
    let mut cov = c.cov;
    cov["scope"] = unit_scope(&units);
    cov["explanation"] = json!("explicit-state search over ALL interleavings (no pre-emption bound) of the real ParallelSolver: a state is the fingerprint, taken at every scheduling decision, of the solver's critical data (hook), the real fringe, the real cache content, the history of the dominance store per key, the cut-off poll counter, and per worker its status, pending acquisition and the history of everything it has read from shared state (its local state is a deterministic function of that history); a state met again is not expanded again; states are reached by re-executing the solver from its initial state; 'states' = distinct states, 'transitions' = scheduling steps executed from fresh decisions; a unit which hit the wall clock cap is reported as not exhaustive");
    (cov, c.complete, c.executions, c.concurrent)
}

fn units_c03(th: bool) -> Vec<Unit> {
    let mut v = vec![];
    for (fam, idx, var) in instance_list(th) {
        for w in if th { vec![1usize, 2] } else { vec![1usize] } {
            for cfg in cfgs12(w) {
                let mut tb = vec![(1usize, 0usize), (2, 2), (3, 1)];
                // (three workers with a cache stay at one pre-emption: at two, about one execution in 10^6 diverged when replayed)
                if th { tb = vec![(1, 0), (2, 3), (3, if cfg.cache { 1 } else { 2 }), (4, 1)]; }
                for (t, b) in tb { v.push(Unit { fam: fam.clone(), idx, var, cfg, construct: t, run: t, cut: CutMode::None, bound: b, primal: false, all: false }); }
            }
        }
    }
    v.extend(units_deep(th));
    v
}
/// a deeper pre-emption bound on MANY instances under the cheapest configuration (no store operations, so few scheduling points):
/// a purge / prune decision taken on a bound read two critical sections earlier needs three context switches of two workers AND an
/// instance whose first sub-problem improves the incumbent past the bound of the second one while its own cut-set still holds the
/// optimum (seeded change C03r4: TM-B4#1036 is the first such instance at stride 37)
fn units_deep(th: bool) -> Vec<Unit> {
    let base = Variant::BASE;
    let mut v = vec![];
    let plain = Cfg { dd: DdKind::Lel, cache: false, nodup: false, width: 1 };
    let caching = Cfg { dd: DdKind::Fc, cache: true, nodup: true, width: 1 };
    for (fam, var, m, stride) in [("TM-B4", base, if th { 48 } else { 24 }, 37u64), ("TM-B4", Variant { flat: true, ..base }, 8, 41), ("TM-N0.1", base, 6, 7), ("TM-N1.1", Variant { rub: Rub::Exact, ..base }, 6, 11), ("KP-3", base, 6, 173), ("SP-4", Variant { flat: true, la: false, ..base }, 6, 211)] {
        for (k, (f, idx, vr)) in interesting(fam, var, m, stride).into_iter().enumerate() {
            v.push(Unit { fam: f.clone(), idx, var: vr, cfg: plain, construct: 2, run: 2, cut: CutMode::None, bound: if th { 4 } else { 3 }, primal: false, all: false });
            if k < if th { 12 } else { 1 } { v.push(Unit { fam: f.clone(), idx, var: vr, cfg: caching, construct: 2, run: 2, cut: CutMode::None, bound: 3, primal: false, all: false }); }
        }
    }
    v
}
fn units_c04(th: bool) -> Vec<Unit> {
    let mut v = units_c03(th);
    let insts = instance_list(th);
    // thread-count pairs and the cut-off at every poll
    for (fam, idx, var) in insts.iter().take(if th { 12 } else { 4 }) {
        for cfg in [Cfg { dd: DdKind::Lel, cache: false, nodup: false, width: 1 }, Cfg { dd: DdKind::Fc, cache: true, nodup: true, width: 1 }, Cfg { dd: DdKind::Pooled, cache: true, nodup: false, width: 1 }] {
            let maxc = if th { 4 } else { 3 };
            for c in 1..=maxc { for r in 1..=(if th { 6 } else { 3 }) { if c != r { v.push(Unit { fam: fam.clone(), idx: *idx, var: *var, cfg, construct: c, run: r, cut: CutMode::None, bound: 1.min(if r > 4 { 0 } else { 1 }), primal: false, all: false }); } } }
            for t in [2usize, 3] { v.push(Unit { fam: fam.clone(), idx: *idx, var: *var, cfg, construct: t, run: t, cut: CutMode::EveryPoll, bound: if t == 2 { 1 } else { if th { 1 } else { 0 } }, primal: false, all: false }); }
        }
    }
    v
}
fn units_c05(th: bool) -> Vec<Unit> {
    let mut v = vec![];
    // two workers which BOTH get cut off in a particular order need two pre-emptions: a deeper bound on four
    // representative configurations, the shallower one on all twelve
    let deep = if th { vec![Cfg { dd: DdKind::Lel, cache: false, nodup: false, width: 1 }, Cfg { dd: DdKind::Fc, cache: true, nodup: true, width: 1 },
                Cfg { dd: DdKind::Pooled, cache: false, nodup: true, width: 1 }, Cfg { dd: DdKind::Lel, cache: true, nodup: false, width: 2 }] }
               else { vec![Cfg { dd: DdKind::Lel, cache: false, nodup: false, width: 1 }, Cfg { dd: DdKind::Fc, cache: true, nodup: true, width: 1 }] };
    for (fam, idx, var) in instance_list(th) {
        for cfg in cfgs12(1) {
            for (t, b) in if th { vec![(2usize, 2usize), (3, 1)] } else { vec![(2usize, 1usize), (3, 0)] } {
                v.push(Unit { fam: fam.clone(), idx, var, cfg, construct: t, run: t, cut: CutMode::EveryPoll, bound: b, primal: false, all: false });
            }
        }
        // quick: the deeper bound on the first instance of each family only
        if !th && v.iter().any(|u: &Unit| u.fam == fam && u.var == var && u.idx != idx) { continue; }
        for cfg in deep.iter() {
            let (t, b) = if th { (2usize, 3usize) } else { (2usize, 2usize) };
            v.push(Unit { fam: fam.clone(), idx, var, cfg: *cfg, construct: t, run: t, cut: CutMode::EveryPoll, bound: b, primal: false, all: false });
        }
    }
    v
}
fn units_c09(th: bool) -> Vec<Unit> { units_c03(th).into_iter().filter(|u| u.cfg.cache && u.run >= 2).collect() }
fn units_c14(th: bool) -> Vec<Unit> {
    let mut v = vec![];
    for (fam, idx, var) in instance_list(th) { for cfg in cfgs12(1) { v.push(Unit { fam: fam.clone(), idx, var, cfg, construct: 2, run: 2, cut: CutMode::None, bound: 1, primal: true, all: false }); } }
    v
}

fn unit_scope(units: &[Unit]) -> Value {
    let mut insts: Vec<String> = units.iter().map(|u| format!("{}#{} [{}]", u.fam, u.idx, vshort(&u.var))).collect();
    insts.sort();
    insts.dedup();
    json!({"instances": insts, "units": units.len()})
}

pub fn check(prop: &str, tier: &str) -> i32 {
    let rep = Reporter::new(prop, tier);
    let th = rep.thorough();
    let units = if prop == "C03" { units_c03(th) } else { units_c04(th) };
    let c = explore_units(&rep, &[prop], &units, if th { 1500.0 } else { 45.0 }, if th { 400_000 } else { 60_000 });
    let mut cov = c.cov.clone();
    cov["evaluations"] = json!(c.executions);
    cov["distinct_nontrivial"] = json!(c.concurrent);
    cov["rule"] = json!(if prop == "C03" {
        "all schedules with at most k pre-emptions (k per class in by_class) of 1..3 (quick) / 1..4 (thorough) workers of the real ParallelSolver over the hooked synchronisation points, on the listed instances x 3 diagrams x cache on/off x 2 fringes; oracle in every execution: is_exact and best value == DP optimum; non-trivial = executions in which >= 2 workers processed sub-problems"
    } else {
        "the C03 exploration plus (i) construction/run thread-count pairs c != r, (ii) the cut-off firing at every poll index; monitors of the scheduler on every execution: deadlock (no enabled worker while one is parked = lost wake-up), worker crash, no termination within 50x the default schedule length under the fair default continuation, hang outside scheduling points, premature completion (a worker leaves with Complete while sub-problems are open or in progress); non-trivial = executions in which >= 2 workers processed sub-problems"
    });
    cov["scope"] = unit_scope(&units);
    // input dimension: the parallel solver with ONE worker over the bounded-exhaustive families (deterministic)
    let dl = Some(Instant::now() + Duration::from_secs(cap_secs(if th { 600 } else if prop == "C04" { 10 } else { 12 })));
    let mut plans = crate::checks::par1_plans(th, crate::bnb::Mode::Plain, false);
    if prop == "C04" { let mut cut = crate::checks::par1_plans(th, crate::bnb::Mode::Cutoffs, false); for p in cut.iter_mut() { p.limit = Some(p.limit.unwrap_or(u64::MAX).min(if th { 2000 } else { 150 })); } plans.extend(cut); }
    let (a1, s1, c1) = crate::bnb::run_plans(&rep, &[prop], &plans, dl);
    cov["single_worker_part"] = crate::checks::par1_cov(&a1, s1, c1);
    // ALL interleavings (explicit-state search) on the smallest non-trivial instances
    let (acov, aok, aexec, _) = all_part(&rep, prop, CutMode::None, false, false, 10.0, 600.0);
    cov["all_interleavings_part"] = acov;
    let mut aok2 = true; let mut aexec2 = 0;
    if prop == "C04" { let (acov2, ok2, ex2, _) = all_part(&rep, prop, CutMode::EveryPoll, false, false, 6.0, 400.0); cov["all_interleavings_with_cutoff_part"] = acov2; aok2 = ok2; aexec2 = ex2; }
    // thorough tier: cross-check of the state matching itself (the same unit explored in two search orders and by the bounded
    // stateless search, in a separate pinned process): a mismatch is a machinery error, never a verdict
    if th && prop == "C03" {
        let mut lines = vec![];
        for args in [["TM-B4", "1", "97", "2", "0", "lel", "0", "0", "2"], ["TM-B4", "1", "97", "2", "0", "fc", "1", "1", "1"], ["TM-B4", "1", "97", "2", "1", "lel", "0", "0", "1"]] {
            let out = std::process::Command::new(std::env::current_exe().unwrap()).arg("sched-xcheck").args(args).env("XCHECK_S", "300").output();
            match out {
                Ok(o) => {
                    let txt = String::from_utf8_lossy(&o.stdout).to_string();
                    for l in txt.lines().filter(|l| l.contains("ALL fwd")) { lines.push(l.to_string()); }
                    if o.status.code() != Some(0) { rep.engine_error(format!("state matching cross-check failed ({:?}): {}", args, txt.lines().last().unwrap_or(""))); }
                }
                Err(e) => rep.engine_error(format!("cannot run the state matching cross-check: {}", e)),
            }
        }
        cov["state_matching_cross_check"] = json!({"what": "each unit explored by the explicit-state search in two different search orders and by the bounded stateless search: same number of distinct states, transitions, executions and outcomes in both orders, every outcome of the bounded search among those of the unbounded one", "results": lines});
    }
    cov["evaluations"] = json!(c.executions + a1.runs + a1.cut_runs + aexec + aexec2);
    cov["exhaustive"] = json!(c.complete && c1 && aok && aok2);
    rep.finish("model_checking", cov, assumptions())
}
fn assumptions() -> Vec<String> {
    vec![
        "ddo has no unsafe code and all sharing goes through one parking_lot mutex, one condvar, the dashmap stores and the cut-off: interleavings of critical sections, single store operations and cut-off polls are the complete behaviour (sequential consistency for data-race-free programs)".to_string(),
        "parking_lot condvars have no spurious wake-ups (documented); dashmap single-key operations are linearizable (C18 examines ddo's use of them under loom)".to_string(),
        "bounded: pre-emption bound, number of workers and instances as listed; stateless search (no state matching)".to_string(),
    ]
}

fn part(rep: &Reporter, focus: &str, units: Vec<Unit>, quick_s: f64, thorough_s: f64) -> (Value, bool) {
    let th = rep.thorough();
    let c = explore_units(rep, &[focus], &units, if th { thorough_s } else { quick_s }, if th { 300_000 } else { 40_000 });
    let mut cov = c.cov;
    cov["scope"] = unit_scope(&units);
    (cov, c.complete)
}
pub fn c02_parallel_part(rep: &Reporter) -> (Value, bool) {
    let th = rep.thorough();
    let mut units = units_c03(th);
    units.retain(|u| u.run >= 2);
    if !th { units.retain(|u| u.run == 2); }
    units.extend(units_c05(th).into_iter().filter(|u| u.run == 2));
    part(rep, "C02", units, 16.0, 900.0)
}
pub fn c05_parallel_part(rep: &Reporter) -> (Value, bool) { part(rep, "C05", units_c05(rep.thorough()), 30.0, 1200.0) }
pub fn c09_parallel_part(rep: &Reporter) -> (Value, bool) { part(rep, "C09", units_c09(rep.thorough()), 25.0, 900.0) }
pub fn c15_parallel_part(rep: &Reporter) -> (Value, bool) {
    let th = rep.thorough();
    let k = if th { 5 } else { 2 };
    let irr = Variant { flat: true, la: true, ..Variant::BASE };
    let mut insts = vec![];
    for f in ["TM-N0.0irr", "TM-N1.0irr", "TM-N2.0irr", "TM-N3.0irr"] { insts.extend(interesting(f, irr, k, 17)); }
    insts.extend(interesting("SP-4", irr, k, 211));
    let mut units = vec![];
    for (fam, idx, var) in insts {
        for cfg in [Cfg { dd: DdKind::Pooled, cache: false, nodup: false, width: 1 }, Cfg { dd: DdKind::Pooled, cache: true, nodup: true, width: 1 }, Cfg { dd: DdKind::Pooled, cache: true, nodup: false, width: 2 }, Cfg { dd: DdKind::Fc, cache: true, nodup: true, width: 1 }] {
            for (t, b) in if th { vec![(1usize, 0usize), (2, 2), (3, 1)] } else { vec![(1usize, 0usize), (2, 1)] } { units.push(Unit { fam: fam.clone(), idx, var, cfg, construct: t, run: t, cut: CutMode::None, bound: b, primal: false, all: false }); }
        }
    }
    part(rep, "C15", units, 20.0, 600.0)
}
pub fn c14_parallel_part(rep: &Reporter) -> (Value, bool) { part(rep, "C14", units_c14(rep.thorough()), 15.0, 600.0) }

/// re-executes one recorded schedule (replay files of this engine)
pub fn replay(v: &Value) -> i32 {
    let u = Unit::from_json(&v["unit"]);
    let fam = family(&u.fam);
    let m: Arc<dyn Model> = Arc::from(fam.build(u.idx, u.var));
    let primal: Option<(isize, Vec<Decision>)> = if u.primal { let a = m.achievable(); if a.is_empty() { None } else { Some(a[a.len() / 2].clone()) } } else { None };
    let fire_at = v["fire_at"].as_u64().map_or(usize::MAX, |x| x as usize);
    let sched: Vec<usize> = v["schedule"].as_array().unwrap().iter().map(|x| x.as_u64().unwrap() as usize).collect();
    ddo::verif::set_hook(Some(Arc::new(hook)));
    let e = run_once(m.clone(), &u, fire_at, &primal, sched, 100_000);
    println!("replay: completed={} deadlock={} crashed={:?} outcome={}", e.completed, e.deadlock, e.crashed, e.out.json());
    println!("trace ({} decisions): {:?}", e.trace.len(), e.trace.iter().map(|c| (c.enabled.clone(), c.idx)).collect::<Vec<_>>());
    let fs = judge_exec(m.as_ref(), &u, fire_at, primal.as_ref().map(|p| p.0), &e);
    for x in fs.iter() { println!("VIOLATION-REPLAYED property={} sig={} : {}", x.prop, x.sig, x.what); }
    if let Some(d) = e.diverged { println!("MACHINERY-ERROR {}", d); return 2; }
    if fs.is_empty() { 0 } else { 1 }
}

/// diagnostic command: `mc sched-scan <family> <n instances> <stride> <bound> <threads> <cut 0|1> [rub]`: explores the
/// units of the first n interesting instances under LEL / no cache / simple fringe / width 1 and prints every violation
pub fn scan(args: &[String]) -> i32 {
    let rep = Reporter::new("SCAN", "quick");
    let fam = &args[0];
    let n: usize = args[1].parse().unwrap();
    let stride: u64 = args[2].parse().unwrap();
    let bound: usize = args[3].parse().unwrap();
    let threads: usize = args[4].parse().unwrap();
    let cut = if args[5] == "1" { CutMode::EveryPoll } else { CutMode::None };
    let var = if args.get(6).map_or(false, |s| s == "rub") { Variant { rub: Rub::Exact, ..Variant::BASE } } else { Variant::BASE };
    let insts = interesting(fam, var, n, stride);
    let units: Vec<Unit> = insts.iter().map(|(f, i, v)| Unit { fam: f.clone(), idx: *i, var: *v, cfg: Cfg { dd: DdKind::Lel, cache: false, nodup: false, width: 1 }, construct: threads, run: threads, cut, bound, primal: false, all: false }).collect();
    let c = explore_units(&rep, &["C02", "C03", "C04", "C05", "C09", "C14"], &units, 600.0, 200_000);
    println!("units {} executions {} complete {}", units.len(), c.executions, c.complete);
    for v in rep.violations.lock().unwrap().iter() { println!("{} : {} :: unit {} fire_at {} schedule {}", v.sig, v.what, v.replay["unit"]["idx"], v.replay["fire_at"], v.replay["schedule"]); }
    0
}

/// diagnostic / cross-check command: `mc sched-xcheck <family> <n instances> <stride> <threads> <cut 0|1> <dd lel|fc|pooled> <cache 0|1> <nodup 0|1> [bound] [variant: base|rub|dom|flat]`
/// explores each unit three times -- stateless with a pre-emption bound, explicit-state (all interleavings) in two
/// different search orders -- and compares: same number of distinct states in both orders, same set of outcomes, and
/// every outcome of the bounded search is an outcome of the unbounded one.
pub fn xcheck(args: &[String]) -> i32 {
    let fam = &args[0];
    let n: usize = args[1].parse().unwrap();
    let stride: u64 = args[2].parse().unwrap();
    let threads: usize = args[3].parse().unwrap();
    let cut = if args[4] == "1" { CutMode::EveryPoll } else { CutMode::None };
    let dd = match args[5].as_str() { "fc" => DdKind::Fc, "pooled" => DdKind::Pooled, _ => DdKind::Lel };
    let cfg = Cfg { dd, cache: args[6] == "1", nodup: args[7] == "1", width: 1 };
    let bound: usize = args.get(8).and_then(|s| s.parse().ok()).unwrap_or(2);
    let var = match args.get(9).map(|s| s.as_str()) { Some("rub") => Variant { rub: Rub::Exact, ..Variant::BASE }, Some("dom") => Variant { dom: Dom::Exact, ..Variant::BASE }, Some("flat") => Variant { flat: true, ..Variant::BASE }, _ => Variant::BASE };
    pin_to_core(2);
    ddo::verif::set_hook(Some(Arc::new(hook)));
    let dl = Instant::now() + Duration::from_secs(std::env::var("XCHECK_S").ok().and_then(|s| s.parse().ok()).unwrap_or(120));
    let mut bad = 0;
    for (f, i, v) in interesting(fam, var, n, stride) {
        let u = Unit { fam: f.clone(), idx: i, var: v, cfg, construct: threads, run: threads, cut, bound, primal: false, all: true };
        let t0 = Instant::now();
        let a = explore_unit_all(&u, u64::MAX, dl, false);
        let t1 = t0.elapsed();
        let dl = Instant::now() + Duration::from_secs(std::env::var("XCHECK_S").ok().and_then(|s| s.parse().ok()).unwrap_or(120));
        let b = explore_unit_all(&u, u64::MAX, dl, true);
        let dl = Instant::now() + Duration::from_secs(std::env::var("XCHECK_S").ok().and_then(|s| s.parse().ok()).unwrap_or(120));
        let t2 = Instant::now();
        let c = explore_unit(&Unit { all: false, ..u.clone() }, u64::MAX, dl);
        println!("{}#{} {:?} threads {} cut {:?}: ALL fwd states {} transitions {} executions {} outcomes {} depth {} ({:?}) | ALL rev states {} transitions {} executions {} outcomes {} | bound {} executions {} outcomes {} ({:?}) | violations {} / {} / {}",
            f, i, cfg, threads, cut, a.states, a.transitions, a.executions, a.distinct_outcomes, a.max_depth, t1, b.states, b.transitions, b.executions, b.distinct_outcomes, bound, c.executions, c.distinct_outcomes, t2.elapsed(), a.violations.len(), b.violations.len(), c.violations.len());
        if a.states != b.states || a.distinct_outcomes != b.distinct_outcomes || c.distinct_outcomes > a.distinct_outcomes { println!("  MISMATCH"); bad += 1; }
        for v in a.violations.iter().chain(c.violations.iter()).take(4) { println!("   {} {} {}", v.0, v.1, v.2); }
    }
    if bad > 0 { 2 } else { 0 }
}
