//! Property checks: what each `./check Cxx --tier T` enumerates.
use crate::bnb::*;
use crate::family::*;
use crate::model::*;
use crate::report::*;
use crate::run::*;
use serde_json::{json, Value};
use std::time::{Duration, Instant};

fn tier_of(args: &[String]) -> String {
    let mut t = std::env::var("VERIF_TIER").unwrap_or_else(|_| "quick".to_string());
    let mut i = 0;
    while i < args.len() { if args[i] == "--tier" && i + 1 < args.len() { t = args[i + 1].clone(); } i += 1; }
    t
}

pub fn dispatch(args: &[String]) -> i32 {
    if args.is_empty() { eprintln!("usage: mc <Cxx> [--tier quick|thorough] | mc replay <file>"); return 2; }
    let tier = tier_of(args);
    match args[0].as_str() {
        "C01" => c01(&tier),
        "C02" => c02(&tier),
        "C05" => c05(&tier),
        "C09" => c09(&tier),
        "C14" => c14(&tier),
        "C15" => c15(&tier),
        "C19" => c19(&tier),
        "C06" | "C07" | "C08" | "C12" | "C13" | "C20" => crate::dd::check(&args[0], &tier),
        "C10" | "C11" | "C18" => crate::ops::check(&args[0], &tier),
        "C17" => crate::gap::check(&tier),
        "C03" | "C04" => crate::sched::check(&args[0], &tier),
        "C16" => crate::examples::check(&tier),
        "replay" => crate::replay::replay(&args[1..]),
        "sched-worker" => crate::sched::worker_main(&args[1..]),
        "sched-scan" => crate::sched::scan(&args[1..]),
        "sched-xcheck" => crate::sched::xcheck(&args[1..]),
        "selfcheck" => selfcheck(),
        "pop-trace" => {
            // diagnostic: `mc pop-trace <family> <first idx> <count> <dd lel|fc|pooled> <nodup 0|1>`: single-worker parallel runs with a cache
            let fam = family(&args[1]);
            let (i0, n): (u64, u64) = (args[2].parse().unwrap(), args[3].parse().unwrap());
            let dd = match args[4].as_str() { "fc" => DdKind::Fc, "pooled" => DdKind::Pooled, _ => DdKind::Lel };
            let cfg = Cfg { dd, cache: true, nodup: args[5] == "1", width: 1 };
            crate::rec::install_light_hook();
            for idx in i0..i0 + n { let m: std::sync::Arc<dyn Model> = std::sync::Arc::from(fam.build(idx, Variant::BASE)); eprintln!("--- {} #{}", args[1], idx); let o = run_par(m.clone(), &RunSpec::plain(cfg), 1); eprintln!("    -> {:?} (optimum {:?})", o.map(|o| (o.best_value, o.explored)), m.opt()); }
            println!("pops {} re-pops with a better value {}", crate::rec::POPS.load(std::sync::atomic::Ordering::SeqCst), crate::rec::REPOPS_BETTER.load(std::sync::atomic::Ordering::SeqCst));
            0
        }
        "bench-par1" => {
            let fam = family("TM-B4");
            let cfg = Cfg { dd: DdKind::Lel, cache: false, nodup: false, width: 1 };
            let t0 = Instant::now();
            let mut n = 0;
            for idx in 0..300u64 { let m: std::sync::Arc<dyn Model> = std::sync::Arc::from(fam.build(idx, Variant::BASE)); let _ = run_par(m, &RunSpec::plain(cfg), 1); n += 1; }
            println!("run_par (helper thread): {} runs {:?} per run", n, t0.elapsed() / n);
            let t0 = Instant::now();
            for idx in 0..300u64 { let m = fam.build(idx, Variant::BASE); let _ = run_seq(m.as_ref(), &RunSpec::plain(cfg)); }
            println!("run_seq: {:?} per run", t0.elapsed() / 300);
            let t0 = Instant::now();
            for _ in 0..300 { std::thread::spawn(|| {}).join().unwrap(); }
            println!("bare spawn+join: {:?}", t0.elapsed() / 300);
            crate::par::pin_current_thread(3);
            let t0 = Instant::now();
            for _ in 0..300 { std::thread::spawn(|| {}).join().unwrap(); }
            println!("pinned bare spawn+join: {:?}", t0.elapsed() / 300);
            let t0 = Instant::now();
            for idx in 0..300u64 { let m: std::sync::Arc<dyn Model> = std::sync::Arc::from(fam.build(idx, Variant::BASE)); let _ = run_par(m, &RunSpec::plain(cfg), 1); }
            println!("pinned run_par: {:?} per run", t0.elapsed() / 300);
            0
        }
        x => { eprintln!("unknown command {}", x); 2 }
    }
}

pub fn variants_ca() -> Vec<Variant> {
    // pairwise covering rows over rub(3) x dom(3) x rank(3) x revperm(2) x flat(2) x bonus(2)
    let rubs = [Rub::None, Rub::Exact, Rub::Slack];
    let doms = [Dom::Off, Dom::Exact, Dom::Weak];
    let ranks = [Rank::Asc, Rank::Desc, Rank::Equal];
    let mut rows = vec![];
    for i in 0..3 { for j in 0..3 {
        let k = (i + j) % 3;
        let a = (i + 2 * j) % 2 == 1;
        let b = (i * 2 + j) % 2 == 1;
        let c = (i + j) % 2 == 1;
        rows.push(Variant { rub: rubs[i], dom: doms[j], rank: ranks[k], revperm: a, flat: b, bonus: c, la: false });
    } }
    // complete the pairs of the three boolean factors among themselves and with each ternary value
    for (a, b, c) in [(false, false, false), (true, true, true), (false, true, false), (true, false, true), (false, false, true), (true, true, false)] {
        for i in 0..3 { rows.push(Variant { rub: rubs[i], dom: doms[(i + 1) % 3], rank: ranks[(i + 2) % 3], revperm: a, flat: b, bonus: c, la: false }); }
    }
    rows
}
/// the rows of variants_ca whose dominance rule is effective (depth embedded state)
pub fn variants_dom() -> Vec<Variant> {
    let mut v = vec![];
    for dom in [Dom::Off, Dom::Exact, Dom::Weak] { for rub in [Rub::None, Rub::Exact] { for bonus in [false, true] { for rank in [Rank::Asc, Rank::Desc] {
        v.push(Variant { rub, dom, rank, revperm: false, flat: false, bonus, la: false });
    } } } }
    v
}
pub fn variants_flat() -> Vec<Variant> {
    let mut v = vec![];
    for rub in [Rub::None, Rub::Exact, Rub::Slack] { for bonus in [false, true] { for rank in [Rank::Asc, Rank::Desc, Rank::Equal] {
        v.push(Variant { rub, dom: Dom::Off, rank, revperm: false, flat: true, bonus, la: false });
    } } }
    v
}
pub fn variants_sp() -> Vec<Variant> {
    let mut v = vec![];
    for la in [false, true] { for rub in [Rub::None, Rub::Exact] { for rank in [Rank::Asc, Rank::Desc, Rank::Equal] {
        v.push(Variant { rub, dom: Dom::Off, rank, revperm: false, flat: true, bonus: false, la });
    } } }
    v
}
pub fn variants_sp_dom() -> Vec<Variant> {
    let mut v = vec![];
    for rub in [Rub::None, Rub::Exact] { for rank in [Rank::Asc, Rank::Desc] { v.push(Variant { rub, dom: Dom::Coord, rank, revperm: false, flat: true, bonus: false, la: false }); } }
    v
}
pub fn variants_kp() -> Vec<Variant> {
    let mut v = vec![];
    // `bonus` selects the merge operator of the knapsack model (max capacity / one above it, see family.rs)
    for bonus in [false, true] { for dom in [Dom::Off, Dom::Coord] { for rub in [Rub::None, Rub::Exact, Rub::Slack] { for rank in [Rank::Asc, Rank::Desc, Rank::Equal] {
        v.push(Variant { rub, dom, rank, revperm: false, flat: false, bonus, la: false });
    } } } }
    v
}
/// the hand-written knapsacks (KPH): loose or absent rough bound (long searches), both merge operators, two rankings
pub fn variants_kph() -> Vec<Variant> {
    let mut v = vec![];
    for bonus in [false, true] { for rub in [Rub::None, Rub::Slack] { for rank in [Rank::Asc, Rank::Desc] { v.push(Variant { rub, dom: Dom::Off, rank, revperm: false, flat: false, bonus, la: false }); } } }
    v
}
pub fn variants_irr() -> Vec<Variant> {
    let mut v = vec![];
    for rub in [Rub::None, Rub::Exact] { for rank in [Rank::Asc, Rank::Desc] { v.push(Variant { rub, dom: Dom::Off, rank, revperm: false, flat: true, bonus: false, la: true }); } }
    v
}

fn selfcheck() -> i32 {
    // verifies the models themselves, independently of ddo
    let mut n = 0u64;
    let mut bad = 0u64;
    for fam in all_families() {
        let cnt = fam.count().min(4000);
        let vars = match fam { Fam::Sp { .. } => variants_sp(), Fam::Kp { .. } | Fam::Kpz { .. } | Fam::Kpb { .. } | Fam::Kph { .. } => variants_kp(), Fam::TmIrr { .. } => variants_irr(), _ => variants_ca() };
        for idx in 0..cnt {
            for var in vars.iter() {
                let m = fam.build(idx, *var);
                if let Err(e) = m.self_check() { if bad < 10 { println!("SELF-CHECK FAILED {} idx={} {:?}: {}", fam.name(), idx, var, e); } bad += 1; }
                n += 1;
            }
        }
    }
    println!("selfcheck: {} models verified, {} failures", n, bad);
    if bad > 0 { 2 } else { 0 }
}

fn plan(name: &str, variants: Vec<Variant>, rotate: bool, cfgs: &[Cfg], mode: Mode, limit: Option<u64>) -> Plan {
    Plan { fam: family(name), variants, rotate, cfgs: cfgs.to_vec(), mode, record: true, limit, par1: false }
}

/// plans run by the PARALLEL solver with one worker (deterministic): bounded-exhaustive over inputs x configurations
pub fn par1_plans(th: bool, mode: Mode, cache_only: bool) -> Vec<Plan> {
    let mut c3 = Cfg::full(&W3);
    if cache_only { c3.retain(|c| c.cache); }
    let sp: Vec<Variant> = variants_sp().into_iter().filter(|v| !v.la).collect();
    let mk = |name: &str, variants: Vec<Variant>, rotate: bool, limit: Option<u64>| Plan { fam: family(name), variants, rotate, cfgs: c3.clone(), mode, record: true, limit, par1: true };
    let heavy = mode != Mode::Plain;
    let mut p = vec![
        mk("TM-0b", variants_ca(), true, None),
        mk("TM-B4", variants_ca(), true, Some(if th { 16384 } else if heavy { 600 } else { 3000 })),
        mk("TM-N0.1", variants_ca(), true, None),
        mk("TM-N1.1", variants_ca(), true, None),
        mk("SP-3", sp.clone(), true, None),
        mk("SP-4", sp.clone(), true, Some(if th { 5184 } else if heavy { 300 } else { 1500 })),
        mk("KP-3", variants_kp(), true, Some(if th { 5103 } else if heavy { 500 } else { 5103 })),
        mk("KP-4", variants_kp(), true, Some(if th { 45927 } else if heavy { 500 } else { 6000 })),
    ];
    // (long searches: in the uninterrupted sweeps only -- with the cut-off at each of their 10^2..10^3 polls they would eat the budget)
    if !heavy { p.push(mk("KPH-0", variants_kp(), !th, None)); }
    // three decisions per state: the first layer below a sub-problem root is wider than width 2, so the restricted diagram drops
    // a branch which the relaxed diagram of the same sub-problem keeps exact (seeded change C02r6)
    if !th && !heavy { p.push(mk("TM-N3.1", variants_ca().into_iter().filter(|v| v.dom == Dom::Off).collect(), false, None)); }
    if th { p.push(mk("TM-N2.1", variants_ca(), true, None)); p.push(mk("TM-N3.1", variants_ca(), heavy, None)); p.push(mk("KP-5", variants_kp(), true, Some(if heavy { 5000 } else { 60000 }))); }
    p
}
pub fn par1_cov(agg: &Agg, scopes: Vec<Value>, complete: bool) -> Value {
    json!({"what": "the real ParallelSolver with ONE worker (deterministic, no scheduler needed) over bounded-exhaustive input families x configurations; a run which does not return within 10 s is a hang",
           "scopes": scopes, "complete": complete, "runs": agg.runs, "runs_with_2+_subproblems": agg.nontrivial, "cutoff_runs": agg.cut_runs, "primal_runs": agg.primal_runs, "hangs": agg.hangs,
           "cache_hits": agg.cache_hits, "dominance_prunings": agg.dom_pruned, "monitor_hits_all_properties": agg.monitor_hits})
}

fn cov_common(agg: &Agg, scopes: Vec<Value>, complete: bool) -> Value {
    json!({
        "samples": agg.samples, "exhaustive": complete, "scopes": scopes, "model_instances": agg.instances, "infeasible_instances": agg.infeasible_instances,
        "long_arc_instances": agg.long_arc_instances, "uninterrupted_runs": agg.runs, "uninterrupted_runs_with_2+_subproblems": agg.nontrivial,
        "cutoff_runs": agg.cut_runs, "cutoff_runs_with_open_subproblems": agg.cut_nontrivial, "primal_runs": agg.primal_runs, "primal_runs_below_optimum": agg.primal_below_opt,
        "merges": agg.merges, "restricted_compilations": agg.restricted, "relaxed_compilations": agg.relaxed, "relax_calls": agg.relax_calls, "cache_hits": agg.cache_hits,
        "dominance_prunings": agg.dom_pruned, "layers_checked_for_width": agg.layers_checked, "cache_twin_pairs": agg.twin_pairs, "cache_twin_pairs_with_different_explored_count": agg.cache_twin_diff_explored,
        "max_polls_of_a_terminating_run_in_permille_of_the_fuel_bound": agg.max_fuel_permille,
        "outcomes": agg.outcomes, "monitor_hits_all_properties": agg.monitor_hits,
        "caps_hit": if complete { json!([]) } else { json!(["wall clock cap of the tier: see scopes[*].instances_done"]) },
    })
}
fn finish(rep: &Reporter, level: &str, agg: &Agg, scopes: Vec<Value>, complete: bool, evaluations: u64, nontrivial: u64, rule: &str, assumptions: &[&str]) -> i32 {
    let mut cov = cov_common(agg, scopes, complete);
    cov["evaluations"] = json!(evaluations);
    cov["distinct_nontrivial"] = json!(nontrivial);
    cov["rule"] = json!(rule);
    let mut a: Vec<String> = assumptions.iter().map(|s| s.to_string()).collect();
    a.push("oracles: backward DP over the instance table (TM, KP) / subset enumeration (SP); each model family is self-checked (exact singletons, over-approximating merge and arc relaxation, admissible rough bound) before use".to_string());
    a.push("results hold for the enumerated finite families only (<= 5 layers, <= 3 base states / <= 7 capacities / <= 5 vertices)".to_string());
    rep.finish(level, cov, a)
}
fn deadline(rep: &Reporter, quick_s: u64, thorough_s: u64) -> Option<Instant> { Some(Instant::now() + Duration::from_secs(cap_secs(if rep.thorough() { thorough_s } else { quick_s }))) }

const W4: [usize; 4] = [1, 2, 3, 64];
const W3: [usize; 3] = [1, 2, 3];

fn plans_c01(thorough: bool, mode: Mode) -> Vec<Plan> {
    let full = Cfg::full(&W4);
    let c3 = Cfg::full(&W3);
    let mut p = vec![
        plan("TM-0a", variants_ca(), false, &full, mode, None),
        plan("TM-0b", variants_ca(), false, &full, mode, None),
        plan("TM-0c", variants_ca(), false, &full, mode, None),
        plan("TM-A", variants_ca(), true, &c3, mode, if thorough { None } else { Some(200_000) }),
        plan("TM-B4", variants_ca(), true, &full, mode, None),
        plan("TM-N0.1", variants_ca(), false, &full, mode, None),
        plan("TM-N1.1", variants_ca(), false, &full, mode, None),
        plan("TM-N2.1", variants_ca(), true, &full, mode, None),
        plan("TM-N3.1", variants_ca(), true, &full, mode, None),
        plan("SP-2", variants_sp(), false, &full, mode, None),
        plan("SP-3", variants_sp(), false, &full, mode, None),
        plan("SP-4", variants_sp(), false, &c3, mode, None),
        plan("KP-2", variants_kp(), false, &full, mode, None),
        plan("KP-3", variants_kp(), true, &full, mode, None),
        plan("KPZ-3", variants_kp(), false, &c3, mode, None),
        plan("KPZ-4", variants_kp(), true, &c3, mode, None),
        plan("KPB-6", variants_kp(), true, &c3, mode, None),
        // hand-written knapsacks with 7 / 10 / 11 items and all their neighbours at Hamming distance 1: searches of 10^2..10^3
        // sub-problems, every knapsack variant (rough bound x dominance x merge operator x ranking)
        plan("KPH-0", variants_kp(), false, &c3, mode, None),
        plan("KPH-1", variants_kp(), false, &c3, mode, None),
        plan("KPH-2", variants_kp(), false, &c3, mode, None),
    ];
    if thorough {
        p.push(plan("KPB-7", variants_kp(), true, &c3, mode, None));
        p.push(plan("TM-A", variants_ca(), false, &c3, mode, Some(100_000)));
        p.push(plan("TM-Abot", variants_ca(), true, &c3, mode, Some(3_000_000)));
        p.push(plan("TM-B4", variants_ca(), false, &full, mode, None));
        p.push(plan("TM-B4w", variants_ca(), true, &c3, mode, None));
        p.push(plan("TM-B4n", variants_ca(), true, &c3, mode, None));
        p.push(plan("TM-B5", variants_ca(), true, &c3, mode, None));
        p.push(plan("TM-D3", variants_ca(), true, &full, mode, None));
        p.push(plan("TM-D4", variants_ca(), true, &c3, mode, None));
        p.push(plan("TM-N0.2", variants_ca(), true, &c3, mode, None));
        p.push(plan("TM-N1.2", variants_ca(), true, &c3, mode, None));
        p.push(plan("TM-N2.2", variants_ca(), true, &c3, mode, None));
        p.push(plan("TM-N3.2", variants_ca(), true, &c3, mode, None));
        p.push(plan("SP-5", variants_sp(), true, &c3, mode, None));
        p.push(plan("KP-4", variants_kp(), true, &c3, mode, None));
    }
    p
}

fn c01(tier: &str) -> i32 {
    let rep = Reporter::new("C01", tier);
    let plans = plans_c01(rep.thorough(), Mode::Plain);
    let (agg, scopes, complete) = run_plans(&rep, &["C01"], &plans, deadline(&rep, 50, 1500));
    finish(&rep, "exploration", &agg, scopes, complete, agg.runs, agg.nontrivial,
        "bounded-exhaustive: every instance of each listed family (scopes) x model variants (rub, dominance, ranking, variable permutation, depth-free state, bonus relaxation) x solver configurations (3 diagrams x cache on/off x 2 fringes x widths), each run once through the real SequentialSolver::maximize() with a fuel cut-off; oracle: terminates, is_exact, best value == DP optimum (None iff infeasible); non-trivial = the search processed >= 2 sub-problems (explored() >= 2), each (instance, variant, configuration) triple is enumerated once so they are distinct",
        &[])
}

fn c02(tier: &str) -> i32 {
    let rep = Reporter::new("C02", tier);
    let th = rep.thorough();
    let full = Cfg::full(&W4);
    let c3 = Cfg::full(&W3);
    // uninterrupted part: the C01 space; interrupted part: every cut-off index on the C05 space
    let mut plans = plans_c01(th, Mode::Plain);
    plans.extend(plans_c05(th, &full, &c3));
    let (agg, scopes, complete) = run_plans(&rep, &["C02"], &plans, deadline(&rep, 36, 1500));
    let (par_cov, par_ok) = crate::sched::c02_parallel_part(&rep);
    let (all_cov, all_ok, _, _) = crate::sched::all_part(&rep, "C02", crate::sched::CutMode::None, false, false, 6.0, 300.0);
    let par_ok = par_ok && all_ok;
    // input dimension of the parallel solver: one worker (deterministic) over the bounded-exhaustive families, uninterrupted and
    // with the cut-off at every poll, every run judged by the same solution oracle (seeded change C02r6: the parallel solver
    // took the decisions of the relaxed diagram's best path, the value stayed right: input dependent, not schedule dependent)
    let (a1, s1, c1) = run_plans(&rep, &["C02"], &par1_plans(th, Mode::Plain, false), deadline(&rep, 22, 300));
    let mut cutp = par1_plans(th, Mode::Cutoffs, false);
    for p in cutp.iter_mut() { p.limit = Some(p.limit.unwrap_or(u64::MAX).min(if th { 2000 } else { 150 })); }
    let (a2, s2, c2) = run_plans(&rep, &["C02"], &cutp, deadline(&rep, 6, 300));
    let mut cov_extra = json!({"parallel_part": par_cov, "all": all_cov});
    let _ = &mut cov_extra;
    let mut cov = cov_common(&agg, scopes, complete && par_ok && c1 && c2);
    cov["parallel_single_worker_part"] = par1_cov(&a1, s1, c1);
    cov["parallel_single_worker_part_with_cutoff"] = par1_cov(&a2, s2, c2);
    cov["evaluations"] = json!(agg.runs + agg.cut_runs + a1.runs + a2.runs + a2.cut_runs);
    cov["distinct_nontrivial"] = json!(agg.nontrivial + agg.cut_nontrivial);
    cov["rule"] = json!("sequential part: every run of the C01 space (uninterrupted) and of the C05 space (cut off at every poll index k) is judged by the solution oracle: value present <=> solution present, Completion.best_value == best_value() == best_lower_bound(), <= 1 decision per variable, model-side replay of the decisions (domain membership at each step) sums to exactly the value, after an uninterrupted run best_upper_bound() == value (== lb == isize::MIN when infeasible); non-trivial = uninterrupted runs with >= 2 sub-problems + interrupted runs which had explored >= 1 sub-problem; parallel part: see parallel_part (all schedules up to a pre-emption bound on the real ParallelSolver)");
    cov["parallel_part"] = cov_extra["parallel_part"].clone();
    cov["all_interleavings_part"] = cov_extra["all"].clone();
    if let Some(st) = cov["parallel_part"].get("states").cloned() { cov["states"] = st; }
    if let Some(st) = cov["parallel_part"].get("transitions").cloned() { cov["transitions"] = st; }
    if let Some(st) = cov["parallel_part"].get("traces_validated_against_impl").cloned() { cov["traces_validated_against_impl"] = st; }
    rep.finish("model_checking", cov, vec!["sequential runs are deterministic; parallel part: see DESIGN 2.5 (scheduler owns all accesses to shared state)".to_string()])
}

fn plans_c05(thorough: bool, full: &[Cfg], c3: &[Cfg]) -> Vec<Plan> { plans_c05h(thorough, full, c3, false) }
/// `heavy`: the larger knapsack families too (C19 runs them; C05 and C02 share their budget with the parallel parts)
fn plans_c05h(thorough: bool, full: &[Cfg], c3: &[Cfg], heavy: bool) -> Vec<Plan> {
    let m = Mode::Cutoffs;
    let mut p = vec![
        plan("TM-0b", variants_ca(), false, full, m, None),
        plan("TM-0c", variants_ca(), true, full, m, None),
        plan("TM-B4", variants_ca(), true, c3, m, Some(if thorough { 16384 } else { 3000 })),
        plan("TM-N0.1", variants_ca(), true, c3, m, None),
        plan("TM-N1.1", variants_ca(), true, c3, m, None),
        plan("SP-3", variants_sp(), false, c3, m, None),
        plan("SP-4", variants_sp(), true, c3, m, Some(if thorough { 5184 } else { 1500 })),
        plan("KP-2", variants_kp(), true, full, m, None),
        plan("KP-3", variants_kp(), true, c3, m, Some(if thorough { 5103 } else { 1200 })),
        plan("KP-4", variants_kp(), true, c3, m, Some(if thorough { 45927 } else { 6000 })),
        plan("KPZ-4", variants_kp(), true, c3, m, Some(if thorough { 9072 } else { 2000 })),
    ];
    if heavy || thorough {
        p.push(plan("KP-5", variants_kp(), true, c3, m, Some(if thorough { 413_343 } else { 20_000 })));
        // (quick tier: KPB-7 used to take 41 of the 50 seconds and left nothing for KPB-6 and TM-0c; what these two families
        // were added for -- the seeded change of C19 -- is shown by KPH-0 below, so the quick tier visits a part of them only)
        p.push(plan("KPB-6", variants_kp(), true, c3, m, if thorough { None } else { Some(8000) }));
        p.push(plan("KPB-7", variants_kp(), true, c3, m, Some(if thorough { 114_688 } else { 4000 })));
        // hand-written knapsacks with 7 (10, 11) items and all their neighbours at distance 1: the same (state, depth) sits in the
        // fringe several times with different bounds, and a cut-off index exists between two pops whose order matters
        // (seeded changes C19 and C19r5: an entry of the duplicate-free fringe lowered in place without repairing the heap)
        p.push(plan("KPH-0", variants_kph(), false, c3, m, None));
        if thorough { p.push(plan("KPH-1", variants_kph(), false, c3, m, None)); p.push(plan("KPH-2", variants_kph(), true, c3, m, None)); }
    } else {
        p.push(plan("KPB-6", variants_kp(), true, c3, m, Some(6000)));
    }
    if thorough {
        p.push(plan("TM-A", variants_ca(), true, c3, m, Some(200_000)));
        p.push(plan("TM-N2.1", variants_ca(), true, c3, m, None));
        p.push(plan("TM-N3.1", variants_ca(), true, c3, m, None));
        p.push(plan("TM-N0.1", variants_ca(), false, c3, m, None));
        p.push(plan("TM-D3", variants_ca(), true, c3, m, None));
        p.push(plan("TM-B4n", variants_ca(), true, c3, m, Some(200_000)));
    }
    p
}

fn c05(tier: &str) -> i32 {
    let rep = Reporter::new("C05", tier);
    let th = rep.thorough();
    let plans = plans_c05(th, &Cfg::full(&W4), &Cfg::full(&W3));
    let (agg, scopes, complete) = run_plans(&rep, &["C05"], &plans, deadline(&rep, 40, 1200));
    let (par_cov, par_ok) = crate::sched::c05_parallel_part(&rep);
    let (all_cov, all_ok, _, _) = crate::sched::all_part(&rep, "C05", crate::sched::CutMode::EveryPoll, false, false, 12.0, 600.0);
    let (a1, s1, c1) = run_plans(&rep, &["C05"], &par1_plans(th, Mode::Cutoffs, false), deadline(&rep, 12, 600));
    let mut cov = cov_common(&agg, scopes, complete && par_ok && c1 && all_ok);
    cov["all_interleavings_part"] = all_cov;
    cov["parallel_single_worker_part"] = par1_cov(&a1, s1, c1);
    cov["evaluations"] = json!(agg.cut_runs + a1.cut_runs);
    cov["distinct_nontrivial"] = json!(agg.cut_nontrivial);
    cov["rule"] = json!("sequential part (fault enumeration): for every (instance, variant, configuration) of the scopes the uninterrupted run gives K = number of cut-off polls; then for EVERY k in 1..=K a fresh solver is run with a cut-off answering stop from poll k on; oracle: lb <= optimum <= ub (optimum = -inf when infeasible: then no value may be reported), reported solution feasible with value == lb, is_exact only if the value is the optimum; non-trivial = the cut-off fired after >= 1 sub-problem had been popped and the run is inexact; parallel part: see parallel_part");
    cov["parallel_part"] = par_cov.clone();
    for k in ["states", "transitions", "traces_validated_against_impl"] { if let Some(v) = par_cov.get(k) { cov[k] = v.clone(); } }
    rep.finish("model_checking", cov, vec!["the cut-off is modelled as an environment answer: 'stop from poll k on' (TimeBudget's wall clock is not modelled)".to_string()])
}

fn c19(tier: &str) -> i32 {
    let rep = Reporter::new("C19", tier);
    let th = rep.thorough();
    let plans = plans_c05h(th, &Cfg::full(&W4), &Cfg::full(&W3), true);
    let (agg, scopes, complete) = run_plans(&rep, &["C19"], &plans, deadline(&rep, 50, 1200));
    finish(&rep, "fault_enumeration", &agg, scopes, complete, agg.cut_runs + agg.runs, agg.cut_nontrivial,
        "for every (instance, variant, configuration) of the scopes and EVERY consecutive pair of cut-off indices (k, k+1), k in 1..=K (run K+1 = uninterrupted): LB(k) <= LB(k+1) and UB(k) >= UB(k+1); the uninterrupted run is exact with LB = UB = optimum; non-trivial = interrupted runs which had popped >= 1 sub-problem and are inexact",
        &["the sequential solver is deterministic, so run k and run k+1 share their prefix up to poll k"])
}

fn c09(tier: &str) -> i32 {
    let rep = Reporter::new("C09", tier);
    let th = rep.thorough();
    let full = Cfg::full(&W4);
    let c3 = Cfg::full(&W3);
    let m = Mode::Plain;
    let mut vars = variants_flat();
    vars.extend(variants_dom());
    let mut plans = vec![
        plan("TM-B4", vars.clone(), false, &c3, m, if th { None } else { Some(6000) }),
        plan("TM-N0.1", vars.clone(), false, &full, m, None),
        plan("TM-N1.1", vars.clone(), false, &full, m, None),
        plan("TM-N2.1", vars.clone(), true, &full, m, None),
        plan("TM-N3.1", vars.clone(), true, &full, m, None),
        plan("SP-4", variants_sp(), false, &c3, m, if th { None } else { Some(2000) }),
        plan("KP-3", variants_kp(), true, &c3, m, None),
        plan("KP-4", variants_kp(), true, &c3, m, Some(if th { 45927 } else { 10000 })),
        plan("KPB-6", variants_kp(), true, &c3, m, None),
        plan("KPH-0", variants_kp(), false, &c3, m, None),
        plan("KPH-1", variants_kp(), false, &c3, m, None),
        plan("KPH-2", variants_kp(), false, &c3, m, None),
    ];
    if th {
        plans.push(plan("KPB-7", variants_kp(), true, &c3, m, None));
        plans.push(plan("TM-B5", vars.clone(), true, &c3, m, None));
        plans.push(plan("TM-B4w", vars.clone(), true, &c3, m, Some(600_000)));
        plans.push(plan("TM-D4", vars.clone(), true, &c3, m, None));
        plans.push(plan("TM-N0.2", vars.clone(), true, &c3, m, None));
        plans.push(plan("TM-N2.2", vars.clone(), true, &c3, m, None));
    }
    let (agg, scopes, complete) = run_plans(&rep, &["C09"], &plans, deadline(&rep, 40, 1200));
    let (par_cov, par_ok) = crate::sched::c09_parallel_part(&rep);
    let (all_cov, all_ok, _, _) = crate::sched::all_part(&rep, "C09", crate::sched::CutMode::None, false, true, 10.0, 400.0);
    // caching configurations only, the re-convergent families first (a threshold recorded at pop time only matters when the same
    // (state, depth) is reached again later with another value -- own mutant m25b)
    let mut p1 = par1_plans(th, Mode::Plain, true);
    if !th {
        // quick tier: what fits in the budget, shared between the re-convergent families
        p1.retain(|p| { let n = p.fam.name(); n != "SP-3" && n != "SP-4" && n != "TM-0b" });
        for p in p1.iter_mut() { let n = p.fam.name(); let n: &str = &n; p.limit = match n { "KP-4" => Some(1200), "TM-B4" => Some(1000), "KP-3" => Some(600), _ => p.limit }; }
    }
    let (a1, s1, c1) = run_plans(&rep, &["C09"], &p1, deadline(&rep, 14, 600));
    let mut cov = cov_common(&agg, scopes, complete && par_ok && c1 && all_ok);
    cov["all_interleavings_part"] = all_cov;
    cov["parallel_single_worker_part"] = par1_cov(&a1, s1, c1);
    cov["parallel_single_worker_part"]["sub_problems_popped"] = json!(crate::rec::POPS.load(std::sync::atomic::Ordering::SeqCst));
    cov["parallel_single_worker_part"]["sub_problems_popped_again_with_a_better_value"] = json!(crate::rec::REPOPS_BETTER.load(std::sync::atomic::Ordering::SeqCst));
    cov["evaluations"] = json!(agg.runs);
    cov["distinct_nontrivial"] = json!(agg.cache_twin_diff_explored);
    cov["rule"] = json!("sequential part: re-convergent families (butterfly tables, depth-free states, seeds neighbourhoods) x model variants x FULL diagram x fringe x width, SimpleCache vs EmptyCache twins: both must equal the oracle with a feasible solution, the twins must agree, and the recording cache wrapper checks the contract (depths in range); different rankings and the two fringes induce different processing orders; non-trivial = twin pairs in which the cache changed the number of explored sub-problems (i.e. a threshold really pruned something); parallel part: see parallel_part (cache operations outside critical sections are scheduling points)");
    cov["parallel_part"] = par_cov.clone();
    for k in ["states", "transitions", "traces_validated_against_impl"] { if let Some(v) = par_cov.get(k) { cov[k] = v.clone(); } }
    rep.finish("model_checking", cov, vec!["dashmap single-key operations are linearizable (examined by C18)".to_string()])
}

fn c14(tier: &str) -> i32 {
    let rep = Reporter::new("C14", tier);
    let th = rep.thorough();
    let c3 = Cfg::full(&W3);
    let m = Mode::Primal;
    let mut plans = vec![
        plan("TM-0b", variants_ca(), false, &c3, m, None),
        plan("TM-A", variants_ca(), true, &c3, m, Some(if th { 300_000 } else { 20_000 })),
        plan("TM-B4", variants_ca(), true, &c3, m, Some(if th { 16384 } else { 4000 })),
        plan("TM-N0.1", variants_ca(), true, &c3, m, None),
        plan("SP-3", variants_sp(), false, &c3, m, None),
        plan("SP-4", variants_sp(), true, &c3, m, Some(if th { 5184 } else { 1500 })),
        plan("KP-3", variants_kp(), true, &c3, m, Some(if th { 5103 } else { 1000 })),
    ];
    if th {
        plans.push(plan("TM-N1.1", variants_ca(), true, &c3, m, None));
        plans.push(plan("TM-N2.1", variants_ca(), true, &c3, m, None));
        plans.push(plan("TM-N3.1", variants_ca(), true, &c3, m, None));
        plans.push(plan("TM-D3", variants_ca(), true, &c3, m, None));
    }
    let (agg, scopes, complete) = run_plans(&rep, &["C14"], &plans, deadline(&rep, 40, 1200));
    let (par_cov, par_ok) = crate::sched::c14_parallel_part(&rep);
    let (all_cov, all_ok, _, _) = crate::sched::all_part(&rep, "C14", crate::sched::CutMode::None, true, false, 8.0, 300.0);
    let (a1, s1, c1) = run_plans(&rep, &["C14"], &par1_plans(th, Mode::Primal, false), deadline(&rep, 15, 600));
    let mut cov = cov_common(&agg, scopes, complete && par_ok && c1 && all_ok);
    cov["all_interleavings_part"] = all_cov;
    cov["parallel_single_worker_part"] = par1_cov(&a1, s1, c1);
    cov["evaluations"] = json!(agg.primal_runs);
    cov["distinct_nontrivial"] = json!(agg.primal_below_opt);
    cov["rule"] = json!("for every instance of the scopes and EVERY achievable objective value p (with the oracle's witness solution): set_primal(p, witness) [followed by a second set_primal with the next lower value, which must not replace it] then maximize(): is_exact, value == max(p, optimum), solution feasible for that value; set_primal semantics in isolation (cut-off at the first poll): equal value keeps the first solution; non-trivial = runs whose primal is strictly below the optimum (the solver must still find the optimum)");
    cov["parallel_part"] = par_cov;
    rep.finish("exploration", cov, vec!["the primal always comes from a genuinely feasible solution (oracle witness)".to_string()])
}

fn c15(tier: &str) -> i32 {
    let rep = Reporter::new("C15", tier);
    let th = rep.thorough();
    let full = Cfg::full(&W4);
    let c3 = Cfg::full(&W3);
    let m = Mode::Plain;
    let la_sp: Vec<Variant> = variants_sp().into_iter().filter(|v| v.la).collect();
    let mut plans = vec![
        plan("TM-B4irr", variants_irr(), true, &c3, m, Some(if th { 1_523_712 } else { 150_000 })),
        plan("TM-N0.0irr", variants_irr(), false, &full, m, None),
        plan("TM-N1.0irr", variants_irr(), false, &full, m, None),
        plan("TM-N2.0irr", variants_irr(), false, &full, m, None),
        plan("TM-N3.0irr", variants_irr(), false, &full, m, None),
        plan("SP-3", la_sp.clone(), false, &full, m, None),
        plan("SP-4", la_sp.clone(), false, &c3, m, None),
    ];
    if th {
        plans.push(plan("TM-N0.1irr", variants_irr(), true, &c3, m, None));
        plans.push(plan("TM-N1.1irr", variants_irr(), true, &c3, m, None));
        plans.push(plan("SP-5", la_sp, true, &c3, m, None));
    }
    let (agg, scopes, complete) = run_plans(&rep, &["C15"], &plans, deadline(&rep, 45, 1200));
    let (par_cov, par_ok) = crate::sched::c15_parallel_part(&rep);
    // the parallel solver with one worker (deterministic) over the long-arc families
    let pooled_and_fc: Vec<Cfg> = Cfg::full(&W3).into_iter().filter(|c| c.dd != DdKind::Lel).collect();
    let mk1 = |name: &str, variants: Vec<Variant>, rotate: bool, limit: Option<u64>| Plan { fam: family(name), variants, rotate, cfgs: pooled_and_fc.clone(), mode: Mode::Plain, record: true, limit, par1: true };
    let la_sp1: Vec<Variant> = variants_sp().into_iter().filter(|v| v.la).collect();
    let mut p1 = vec![mk1("TM-N0.0irr", variants_irr(), true, None), mk1("TM-N1.0irr", variants_irr(), true, None), mk1("TM-N2.0irr", variants_irr(), true, None), mk1("TM-N3.0irr", variants_irr(), true, None),
                      mk1("TM-B4irr", variants_irr(), true, Some(if th { 300_000 } else { 20_000 })), mk1("SP-4", la_sp1.clone(), true, Some(if th { 5184 } else { 1500 }))];
    if th { p1.push(mk1("SP-5", la_sp1, true, Some(50_000))); }
    let (a1, s1, c1) = run_plans(&rep, &["C15"], &p1, deadline(&rep, 15, 600));
    let mut cov = cov_common(&agg, scopes, complete && par_ok && c1);
    cov["parallel_single_worker_part"] = par1_cov(&a1, s1, c1);
    cov["evaluations"] = json!(agg.runs + a1.runs);
    cov["distinct_nontrivial"] = json!(agg.nontrivial);
    cov["parallel_part"] = par_cov;
    cov["rule"] = json!("sequential part: depth-free table models x ALL irrelevance patterns with <= 3 irrelevant (layer, state) pairs, and set packing models whose is_impacted_by skips states not containing the vertex; every instance x variants x FULL diagram (pooled = long arcs, LEL/frontier = every state expanded on every variable) x cache x fringe x widths; oracle: terminates within the fuel bound, same value as the DP oracle (hence pooled == plain), solution feasible after default completion; non-trivial = runs with >= 2 sub-problems; parallel part: long-arc instances x pooled/frontier configurations, 1-3 workers, all schedules within the pre-emption bound (see parallel_part)");
    return rep.finish("exploration", cov, vec!["a skipped variable takes the neutral default decision 0 (cost 0, state unchanged)".to_string(), "oracles: backward DP / subset enumeration; finite families only".to_string()]);
    #[allow(unreachable_code)]
    finish(&rep, "exploration", &agg, scopes, complete, agg.runs, agg.nontrivial,
        "depth-free table models x ALL irrelevance patterns with <= 3 (seeds) / <= 3 (butterfly) irrelevant (layer, state) pairs, and set packing models whose is_impacted_by skips states not containing the vertex; every instance x variants x FULL diagram (pooled = long arcs, LEL/frontier = every state expanded on every variable) x cache x fringe x widths; oracle: terminates within the fuel bound, same value as the DP oracle (hence pooled == plain), solution feasible after default completion; non-trivial = runs with >= 2 sub-problems",
        &["a skipped variable takes the neutral default decision 0 (cost 0, state unchanged)"])
}
