#!/bin/bash
# usage: tools_seed.sh <seed dir containing patch.diff + seed_demo.rs> <name> <check id>...
# Confirms a seeded change in a scratch worktree (suite passes with it, demonstration fails with it and passes
# without it), then runs the quick tier of the listed checks against the changed copy.  /repo is never touched.
set -u
SRC="$(readlink -f "$1")"; NAME="$2"; shift 2
SCR="${MUT_SCRATCH:-/tmp/sv}/$NAME"
VERIF_DIR="$(cd "$(dirname "$0")" && pwd)"
rm -rf "$SCR"; git -C /repo worktree prune
git -C /repo worktree add -q --detach "$SCR" HEAD || exit 2
cleanup() { git -C /repo worktree remove --force "$SCR" 2>/dev/null; rm -rf "$SCR" "${VERIF_BUILD_ROOT:-$VERIF_DIR/.build}/alt-$(echo "$SCR" | md5sum | cut -c1-10)"; }
trap cleanup EXIT
cd "$SCR" || exit 2
if ! patch -s -p1 < "$SRC/patch.diff"; then echo "SEED $NAME patch-does-not-apply"; exit 2; fi
find . -name '*.orig' -delete
SUITE="$(CARGO_NET_OFFLINE=true timeout 900 cargo test --workspace --no-fail-fast --offline 2>&1 | grep -E '^test result' | head -3 | awk '{print $4"/"$6}' | tr '\n' ' ')"
DEMO_WITH="n/a"; DEMO_WITHOUT="n/a"
if [ -f "$SRC/seed_demo.rs" ]; then
  mkdir -p ddo/tests; cp "$SRC/seed_demo.rs" ddo/tests/seed_demo.rs
  DEMO_WITH="$(CARGO_NET_OFFLINE=true timeout 900 cargo test -p ddo --test seed_demo --offline 2>&1 | grep -E '^test result' | head -1 | awk '{print $4"/"$6}')"
  patch -s -R -p1 < "$SRC/patch.diff"; find . -name '*.orig' -delete
  DEMO_WITHOUT="$(CARGO_NET_OFFLINE=true timeout 900 cargo test -p ddo --test seed_demo --offline 2>&1 | grep -E '^test result' | head -1 | awk '{print $4"/"$6}')"
  patch -s -p1 < "$SRC/patch.diff"; find . -name '*.orig' -delete
  rm -f ddo/tests/seed_demo.rs
fi
OUT=""
for c in "$@"; do
  VERIF_REPO="$SCR" "$VERIF_DIR/check" "$c" --tier "${MUT_TIER:-quick}" > "$SCR/.check-$c.log" 2>&1; code=$?
  sig="$(grep -A1 '^VIOLATION' "$SCR/.check-$c.log" | grep 'sig=' | head -2 | sed 's/^ *//' | cut -c1-200 | tr '\n' ';')"
  OUT="$OUT $c=exit$code[$sig]"
done
echo "SEED $NAME suite(pass/fail)=$SUITE demo-with-change(pass/fail)=$DEMO_WITH demo-without(pass/fail)=$DEMO_WITHOUT checks:$OUT"
